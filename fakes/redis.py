"""In-process stand-in for the subset of redis.asyncio that repid uses (environment stub).

Trusted base: command semantics follow the Redis documentation for PING, GET, SET EXAT,
DEL, LPUSH, RPUSH, LRANGE, LREM, ZADD, ZREM, ZRANGE (by index and BYSCORE with LIMIT),
HSET, HSETNX, HGET, HMGET, HDEL, SCAN MATCH, ZSCAN and MULTI/EXEC pipelines (atomic).
Replies are bytes like a client created without decode_responses.  Scores may be symbolic
(SNum): sorted-set order and BYSCORE filters then fork through the solver.

Scheduling of concurrent clients: every round trip parks on the server's pending list.
  * mode "immediate": released after one loop yield, in arrival order (deterministic);
  * mode "choose": released one at a time whenever the loop has nothing else ready; when
    several clients have a round trip pending, `chooser(n)` (a solver-enumerated selector)
    picks whose command the server applies next - every interleaving at command granularity.
Commands take zero virtual time in both modes; `latency` (a callable) may add virtual time.  A round trip has two legs: the
command travels, the server applies it, the reply travels back (one loop turn, or half the latency each way) - a caller that is
cancelled on the way back has had its command executed.
"""
from __future__ import annotations

import asyncio
import fnmatch

from engine.symx import Ctx, SNum, Q


def b(x):
    if isinstance(x, bytes):
        return x
    if isinstance(x, str):
        return x.encode()
    if isinstance(x, bool):
        raise TypeError("bool is not a valid redis value")
    if isinstance(x, (int, float)):
        return str(x).encode()
    if isinstance(x, (SNum, Q)):
        return str(x).encode()
    raise TypeError(f"Invalid input of type: {type(x).__name__}")


def s(x):
    return x.decode() if isinstance(x, bytes) else x


def score(x):
    """redis score argument -> number (float semantics approximated by exact numbers)."""
    if isinstance(x, (SNum, Q)):
        return x
    if isinstance(x, bytes):
        x = x.decode()
    if isinstance(x, str):
        c = Ctx.cur
        if c is not None and x in c.sentinels:
            return c.sentinels[x]
        if x in ("-inf", "+inf", "inf"):
            return float(x)
        f = float(x)
        return int(f) if f == int(f) else f
    return x


class ZSet(dict):
    pass


class Hash(dict):
    pass


class FakeServer:
    def __init__(self, mode="immediate", chooser=None, latency=None, clock=None, reply_leg=True):
        self.kv = {}           # key(str) -> bytes | list[bytes] | dict (hash) | ZSet
        self.expiry = {}       # key -> unix seconds (int | SNum)
        self.mode = mode
        self.chooser = chooser
        self.latency = latency
        # True: a round trip has two legs - the command travels (half the latency), the server applies it, the reply travels
        # back (the other half; one loop turn without latency).  A caller cancelled on the way back has had its command executed.
        self.reply_leg = reply_leg
        self.clock = clock     # callable returning unix seconds (number) for key expiry
        self.pending = []      # (client, future)
        self.log = []          # applied commands: (client name, [(cmd, args)])
        self.clients = 0
        self._hooked = None

    # -- scheduling -------------------------------------------------------------------
    def attach(self, loop):
        """mode 'choose': release pending round trips from the loop's iteration hook."""
        if self._hooked is loop:
            return
        prev = loop.iter_hook

        def hook(lp):
            if prev is not None:
                prev(lp)
            if self.mode == "choose" and self.pending and not lp._ready:
                self.release_one()

        loop.iter_hook = hook
        self._hooked = loop

    def release_one(self):
        live = [p for p in self.pending if not p[1].done()]
        self.pending = live
        if not live:
            return
        i = 0
        if len(live) > 1 and self.chooser is not None:
            i = self.chooser(len(live))
        client, fut = live.pop(i)
        self.pending = live
        fut.set_result(None)

    async def round_trip(self, client):
        client.round_trips = getattr(client, "round_trips", 0) + 1
        die_after = getattr(client, "die_after", None)
        if die_after is not None and client.round_trips > die_after:
            # the client's process is dead: this command never reaches the server
            await asyncio.get_running_loop().create_future()
        if self.latency is not None:
            d = self.latency(client)
            if d is not None:
                await asyncio.sleep(d / 2 if self.reply_leg else d)
        if self.mode == "choose":
            loop = asyncio.get_running_loop()
            self.attach(loop)
            fut = loop.create_future()
            self.pending.append((client, fut))
            await fut
        else:
            await asyncio.sleep(0)

    async def reply(self, client):
        """The way back of a round trip (after the server has applied the command)."""
        if not self.reply_leg:
            return
        d = self.latency(client) if self.latency is not None else None
        await asyncio.sleep(d / 2 if d is not None else 0)

    # -- data helpers -----------------------------------------------------------------
    def _alive(self, k):
        if k in self.expiry and self.clock is not None:
            now = self.clock()
            if now >= self.expiry[k]:
                self.kv.pop(k, None)
                self.expiry.pop(k, None)
        return k in self.kv

    def _gc(self, k):
        v = self.kv.get(k)
        if v is not None and not isinstance(v, bytes) and len(v) == 0:
            del self.kv[k]

    def _typed(self, k, typ, create=False):
        k = s(k)
        self._alive(k)
        v = self.kv.get(k)
        if v is None:
            if not create:
                return None
            v = typ()
            self.kv[k] = v
        if not isinstance(v, typ):
            raise TypeError("WRONGTYPE Operation against a key holding the wrong kind of value")
        return v

    # -- commands (synchronous, applied atomically by the server) ---------------------------
    def ping(self):
        return True

    def get(self, k):
        k = s(k)
        if not self._alive(k):
            return None
        v = self.kv[k]
        if not isinstance(v, bytes):
            raise TypeError("WRONGTYPE")
        return v

    def getdel(self, k):
        v = self.get(k)
        if v is not None:
            self.delete(k)
        return v

    def set(self, k, v, exat=None, ex=None):
        k = s(k)
        self.kv[k] = b(v)
        self.expiry.pop(k, None)
        if exat is not None:
            if hasattr(exat, "timestamp"):
                ts = exat.timestamp()
                from engine.symx import sym_int
                exat = sym_int(ts) if not isinstance(ts, float) else int(ts)
            self.expiry[k] = exat
        elif ex is not None:
            # relative expiry: whole seconds from the server's clock at the moment of the SET
            if hasattr(ex, "total_seconds"):
                from engine.symx import sym_int
                secs = ex.total_seconds()
                ex = sym_int(secs) if not isinstance(secs, float) else int(secs)
            if self.clock is not None:
                self.expiry[k] = self.clock() + ex
        return True

    def expireat(self, k, when):
        """EXPIREAT: the key (of any type) disappears when the server clock reaches `when` (unix seconds or a datetime)."""
        k = s(k)
        if k not in self.kv:
            return 0
        if hasattr(when, "timestamp"):
            ts = when.timestamp()
            from engine.symx import sym_int
            when = sym_int(ts) if not isinstance(ts, float) else int(ts)
        self.expiry[k] = when
        return 1

    def expire(self, k, seconds):
        k = s(k)
        if k not in self.kv or self.clock is None:
            return 0
        if hasattr(seconds, "total_seconds"):
            from engine.symx import sym_int
            secs = seconds.total_seconds()
            seconds = sym_int(secs) if not isinstance(secs, float) else int(secs)
        self.expiry[k] = self.clock() + seconds
        return 1

    def delete(self, *ks):
        n = 0
        for k in ks:
            k = s(k)
            if self._alive(k):
                del self.kv[k]
                self.expiry.pop(k, None)
                n += 1
        return n

    def lpush(self, k, *vs):
        lst = self._typed(k, list, create=True)
        for v in vs:
            lst.insert(0, b(v))
        return len(lst)

    def rpush(self, k, *vs):
        lst = self._typed(k, list, create=True)
        lst.extend(b(v) for v in vs)
        return len(lst)

    def lrange(self, k, start, end):
        lst = self._typed(k, list) or []
        n = len(lst)
        if start < 0:
            start = max(n + start, 0)
        if end < 0:
            end = n + end
        if end < 0 or start >= n or start > end:
            return []
        return list(lst[start:end + 1])

    def llen(self, k):
        return len(self._typed(k, list) or [])

    def lrem(self, k, count, v):
        lst = self._typed(k, list)
        if lst is None:
            return 0
        v = b(v)
        removed = 0
        if count < 0:
            i = len(lst) - 1
            while i >= 0 and removed < -count:
                if lst[i] == v:
                    del lst[i]
                    removed += 1
                i -= 1
        else:
            i = 0
            while i < len(lst) and (count == 0 or removed < count):
                if lst[i] == v:
                    del lst[i]
                    removed += 1
                else:
                    i += 1
        self._gc(s(k))
        return removed

    def zadd(self, k, mapping):
        z = self._typed(k, ZSet, create=True)
        n = 0
        for m, sc in mapping.items():
            m = b(m)
            n += m not in z
            z[m] = score(sc)
        return n

    def _zitems(self, k):
        z = self._typed(k, ZSet) or {}
        items = list(z.items())
        # order by (score, member); symbolic scores fork inside the comparisons
        import functools

        def cmp(a, c):
            if a[1] < c[1]:
                return -1
            if c[1] < a[1]:
                return 1
            return -1 if a[0] < c[0] else (1 if a[0] > c[0] else 0)

        return sorted(items, key=functools.cmp_to_key(cmp))

    def zrem(self, k, *ms):
        z = self._typed(k, ZSet)
        if z is None:
            return 0
        n = 0
        for m in ms:
            n += z.pop(b(m), None) is not None
        self._gc(s(k))
        return n

    def zscore(self, k, m):
        z = self._typed(k, ZSet) or {}
        return z.get(b(m))

    def zrange(self, k, start, end, byscore=False, offset=None, num=None, withscores=False):
        items = self._zitems(k)
        if byscore:
            lo, hi = score(start), score(end)
            ninf, pinf = float("-inf"), float("inf")

            def inside(sc):
                if not (isinstance(lo, float) and lo == ninf) and not (lo <= sc):
                    return False
                if not (isinstance(hi, float) and hi == pinf) and not (sc <= hi):
                    return False
                return True

            sel = [(m, sc) for m, sc in items if inside(sc)]
            if offset is not None:
                sel = sel[offset:offset + num] if num is not None and num >= 0 else sel[offset:]
        else:
            n = len(items)
            if start < 0:
                start = max(n + start, 0)
            if end < 0:
                end = n + end
            sel = items[start:end + 1] if end >= 0 else []
        return [(m, sc) for m, sc in sel] if withscores else [m for m, _ in sel]

    def hset(self, k, key=None, value=None, mapping=None):
        h = self._typed(k, Hash, create=True)
        n = 0
        if key is not None:
            n += b(key) not in h
            h[b(key)] = b(value)
        for kk, vv in (mapping or {}).items():
            n += b(kk) not in h
            h[b(kk)] = b(vv)
        return n

    def hsetnx(self, k, key, value):
        h = self._typed(k, Hash, create=True)
        if b(key) in h:
            return 0
        h[b(key)] = b(value)
        return 1

    def hget(self, k, key):
        h = self._typed(k, Hash)
        return None if h is None else h.get(b(key))

    def hmget(self, k, keys):
        h = self._typed(k, Hash) or {}
        return [h.get(b(x)) for x in keys]

    def hdel(self, k, *keys):
        h = self._typed(k, Hash)
        if h is None:
            return 0
        n = 0
        for x in keys:
            n += h.pop(b(x), None) is not None
        self._gc(s(k))
        return n

    def keys(self, match=None):
        return [k for k in list(self.kv) if self._alive(k) and (match is None or fnmatch.fnmatchcase(k, match))]


class Pipeline:
    def __init__(self, client, transaction=True):
        self.client = client
        self.transaction = transaction
        self.q = []

    async def __aenter__(self):
        return self

    async def __aexit__(self, *a):
        self.q = []

    def __getattr__(self, name):
        if name.startswith("_"):
            raise AttributeError(name)

        def queue(*a, **k):
            if not hasattr(FakeServer, name):
                raise AttributeError(f"fake redis: unsupported command {name}")
            self.q.append((name, a, k))
            return self

        return queue

    async def execute(self):
        await self.client.server.round_trip(self.client)
        srv = self.client.server
        cmds, self.q = self.q, []
        out = [getattr(srv, n)(*a, **k) for n, a, k in cmds]
        srv.log.append((self.client.name, [(n, a) for n, a, _ in cmds]))
        await srv.reply(self.client)
        return out


class FakeRedis:
    """One client connection (the object stored in broker.conn)."""

    def __init__(self, server, name=None):
        self.server = server
        server.clients += 1
        self.name = name or f"client{server.clients}"
        self.closed = False

    def pipeline(self, transaction=True):
        return Pipeline(self, transaction)

    def __getattr__(self, name):
        if name.startswith("_") or not hasattr(FakeServer, name):
            raise AttributeError(f"fake redis: unsupported command {name}")

        async def call(*a, **k):
            await self.server.round_trip(self)
            r = getattr(self.server, name)(*a, **k)
            self.server.log.append((self.name, [(name, a)]))
            await self.server.reply(self)
            return r

        return call

    async def scan_iter(self, match=None, **kw):
        await self.server.round_trip(self)
        for k in self.server.keys(match):
            yield k.encode()

    async def zscan_iter(self, name, **kw):
        await self.server.round_trip(self)
        for m, sc in self.server._zitems(name):
            yield m, sc

    async def aclose(self, close_connection_pool=True):
        self.closed = True


def mk_broker(server, name=None):
    """A real RedisMessageBroker whose connection is the fake client (injected after construction)."""
    from repid.connections.redis import RedisMessageBroker
    br = RedisMessageBroker("redis://localhost:1/0")
    br.conn = FakeRedis(server, name)
    return br


def mk_bucket_broker(server, use_result_bucket=False, name=None):
    from repid.connections.redis import RedisBucketBroker
    br = RedisBucketBroker("redis://localhost:1/0", use_result_bucket=use_result_bucket)
    br.conn = FakeRedis(server, name)
    return br


def redis_places(server, queue="default"):
    """id -> list of places, read from the server's keys (observation for the harnesses)."""
    out = {}
    for k, v in server.kv.items():
        parts = k.split(":")
        if parts[0] == "q" and parts[1] == queue:
            marker = parts[-1]
            place = {"n": "waiting", "d": "delayed", "dead": "dead"}[marker]
            members = list(v)
            for m in members:
                topic, id_ = m.decode().split(":")
                out.setdefault(id_, []).append((place, k, v.get(m) if isinstance(v, dict) else None))
        elif k == "processing":
            for m in v:
                topic, id_ = m.decode().split(":")
                out.setdefault(id_, []).append(("processing", k, v[m]))
    return out


def redis_message(server, key):
    """(payload, parameters-json) stored for a routing key, or None."""
    from repid.connections.redis.utils import mnc
    h = server.kv.get(mnc(key))
    if not isinstance(h, Hash):
        return None
    return {kk.decode(): vv.decode() for kk, vv in h.items()}
