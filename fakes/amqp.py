"""In-process stand-in for an aiormq channel + a minimal RabbitMQ server model (environment stub).

Models what repid's client code relies on: default-exchange routing by queue name, durable
queues with `x-dead-letter-*` arguments exactly as declared by the caller, per-message
`expiration` (optimistic: a message expires exactly at its TTL and is dead-lettered),
basic_consume/cancel/qos with a prefetch window, delivery tags, ack/nack/reject with and
without requeue, the `redelivered` flag, and one task per delivery callback (like aiormq).
NOT modelled: priority ordering (x-max-priority), head-of-queue expiry, publisher returns,
connection loss.  No RabbitMQ ordering/liveness claim is derived from this model.
"""
from __future__ import annotations

import asyncio

from aiormq.abc import Basic, DeliveredMessage
from pamqp import commands as spec
from pamqp.header import ContentHeader

from engine.symx import Ctx, SNum


class QMsg:
    __slots__ = ("body", "props", "redelivered", "expires_at", "routing_key", "seq")

    def __init__(self, body, props, routing_key, seq):
        self.body = body
        self.props = props
        self.redelivered = False
        self.expires_at = None
        self.routing_key = routing_key
        self.seq = seq


class FakeQueue:
    def __init__(self, name, arguments):
        self.name = name
        self.arguments = dict(arguments or {})
        self.ready = []          # list[QMsg], head first


class FakeAMQPServer:
    def __init__(self):
        self.queues = {}
        self.published = []      # every basic_publish as seen by the server
        self.seq = 0
        self.channels = []
        self.dropped = []        # messages discarded (no DLX / unroutable)
        self.qos_per_consumer = False   # False: basic.qos acts on the whole channel at once (AMQP 0-9-1 as specified); True: RabbitMQ's per-consumer reading
        self.rr = {}             # queue name -> index of the consumer the next message goes to
        self.confirm_turns = 0   # loop turns between routing (and delivery) of a publish and its confirm
        self.settle_turns = 0    # loop turns a basic_ack/nack/reject call takes to return after the server acted on it
        self.settle_delay = 0      # seconds a basic_ack/nack/reject call takes to drain after its frame has been written (slow connection)
        self.consume_ok_turns = 0  # loop turns between the first deliveries of a new consumer and the ConsumeOk reply reaching the caller

    def declare(self, name, arguments):
        if name not in self.queues:
            self.queues[name] = FakeQueue(name, arguments)
        return self.queues[name]

    def route(self, routing_key, msg, loop):
        q = self.queues.get(routing_key)
        if q is None:
            self.dropped.append(("unroutable", routing_key, msg))
            return
        msg.routing_key = routing_key
        q.ready.append(msg)
        limit = q.arguments.get("x-max-length")
        if limit is not None and len(q.ready) > limit:
            # RabbitMQ's default overflow behaviour (drop-head): the oldest message leaves, through the DLX if one is declared
            head = q.ready.pop(0)
            self.dead_letter(q, head, loop, reason="maxlen")
        exp = msg.props.expiration
        if exp is not None:
            ms = _expiration_value(exp)
            if isinstance(ms, SNum):
                delay = ms / 1000
            else:
                delay = int(ms) / 1000
            loop.call_later(delay, self._expire, q, msg, loop)
        self.pump(loop)

    def _expire(self, q, msg, loop):
        if msg in q.ready:
            q.ready.remove(msg)
            self.dead_letter(q, msg, loop, reason="expired")

    def dead_letter(self, q, msg, loop, reason):
        rk = q.arguments.get("x-dead-letter-routing-key")
        if "x-dead-letter-exchange" not in q.arguments or rk is None:
            self.dropped.append((reason, q.name, msg))
            return
        props = msg.props
        props.expiration = None          # RabbitMQ removes the per-message TTL on dead-lettering
        new = QMsg(msg.body, props, rk, msg.seq)
        self.route(rk, new, loop)

    def delete_queue(self, name):
        """Queue deleted on the server: its consumers are cancelled server-side, its messages are gone."""
        self.queues.pop(name, None)
        for ch in self.channels:
            for tag, (qn, _, _) in list(ch.consumers.items()):
                if qn == name:
                    ch.server_cancel(tag)

    def cancel_consumers(self, name):
        """The server cancels the consumers of a queue that stays (e.g. its node went away and came back)."""
        for ch in self.channels:
            for tag, (qn, _, _) in list(ch.consumers.items()):
                if qn == name:
                    ch.server_cancel(tag)

    def pump(self, loop):
        """Deliver ready messages to consumers with prefetch room, round-robin per queue among those consumers
        (RabbitMQ dispatches to the next consumer that can take a message, not always to the first one)."""
        progress = True
        while progress:
            progress = False
            for qname, q in list(self.queues.items()):
                if not q.ready:
                    continue
                cands = [(ch, tag) for ch in self.channels if not ch.is_closed for tag, (qn, _, pf) in ch.consumers.items()
                         if qn == qname and ch._has_room(tag, pf)]
                if not cands:
                    continue
                i = self.rr.get(qname, 0) % len(cands)
                self.rr[qname] = i + 1
                ch, tag = cands[i]
                ch._deliver(q, tag, loop)
                progress = True

    def snapshot(self):
        """queue name -> list of message ids ready; plus unacked per channel."""
        out = {name: [m.props.message_id for m in q.ready] for name, q in self.queues.items()}
        out["__unacked__"] = {i: sorted(m.props.message_id for _, m, _ in ch.unacked.values())
                              for i, ch in enumerate(self.channels)}
        return out


def _expiration_value(exp):
    c = Ctx.cur
    if c is not None and exp in c.sentinels:
        return c.sentinels[exp]
    return int(exp)


class FakeChannel:
    is_closed = False

    def __init__(self, server: FakeAMQPServer):
        self.server = server
        server.channels.append(self)
        self.consumers = {}      # tag -> (queue name, callback, prefetch in force when the consumer was started)
        self.unacked = {}        # delivery tag -> (queue, QMsg, consumer tag)
        self.prefetch = 0
        self.next_tag = 0
        self.next_consumer = 0
        self.log = []            # client commands in order

    # -- publishing ---------------------------------------------------------------------
    async def basic_publish(self, body, *, exchange="", routing_key="", properties=None, mandatory=False, **kw):
        await asyncio.sleep(0)
        props = properties or spec.Basic.Properties()
        self.server.seq += 1
        entry = {"body": body, "exchange": exchange, "routing_key": routing_key, "properties": props,
                 "mandatory": mandatory, "time": asyncio.get_running_loop().time()}
        self.server.published.append(entry)
        self.log.append(("publish", routing_key, props.message_id))
        self.server.route(routing_key, QMsg(body, props, routing_key, self.server.seq), asyncio.get_running_loop())
        for _ in range(self.server.confirm_turns):
            await asyncio.sleep(0)       # the broker may deliver the message before the publisher confirm arrives
        return spec.Basic.Ack()

    # -- consuming ----------------------------------------------------------------------
    async def basic_qos(self, *, prefetch_size=0, prefetch_count=0, **kw):
        await asyncio.sleep(0)
        self.prefetch = prefetch_count or 0
        self.log.append(("qos", prefetch_count))
        self._pump(asyncio.get_running_loop())
        return spec.Basic.QosOk()

    async def basic_consume(self, queue, consumer_callback, *, no_ack=False, **kw):
        await asyncio.sleep(0)
        if queue not in self.server.queues:
            from aiormq.exceptions import ChannelNotFoundEntity
            raise ChannelNotFoundEntity(f"NOT_FOUND - no queue '{queue}' in vhost '/'")
        self.next_consumer += 1
        tag = f"ctag{id(self) % 1000}.{self.next_consumer}"
        self.consumers[tag] = (queue, consumer_callback, self.prefetch)
        self.log.append(("consume", queue, tag))
        self._pump(asyncio.get_running_loop())
        for _ in range(self.server.consume_ok_turns):
            await asyncio.sleep(0)       # aiormq registers the callback before the RPC reply is processed
        return spec.Basic.ConsumeOk(consumer_tag=tag)

    async def basic_cancel(self, consumer_tag, **kw):
        await asyncio.sleep(0)
        self.consumers.pop(consumer_tag, None)
        self.log.append(("cancel", consumer_tag))
        return spec.Basic.CancelOk(consumer_tag=consumer_tag)

    def server_cancel(self, tag):
        """Basic.Cancel sent by the server (queue deleted, node failover): aiormq drops the consumer's callback from
        channel.consumers - repid watches exactly that through its _Consumers dictionary, whose real pop() runs here."""
        entry = self.consumers.pop(tag, None)
        if entry is None:
            return
        from repid.connections.rabbitmq.utils import _Consumers
        watched = _Consumers()
        watched[tag] = entry[1]
        watched.pop(tag, None)
        self.log.append(("server-cancel", tag))

    def _pump(self, loop):
        self.server.pump(loop)

    def _has_room(self, tag, prefetch_at_consume):
        if self.server.qos_per_consumer:
            # RabbitMQ's reading of basic.qos(global=false): the limit is fixed per consumer when it is started and
            # counts that consumer's own unacknowledged deliveries; a later basic.qos only concerns consumers started afterwards
            mine = sum(1 for (_, _, t) in self.unacked.values() if t == tag)
            return prefetch_at_consume == 0 or mine < prefetch_at_consume
        return self.prefetch == 0 or len(self.unacked) < self.prefetch

    def _deliver(self, q, tag, loop):
        cb = self.consumers[tag][1]
        m = q.ready.pop(0)
        self.next_tag += 1
        dtag = self.next_tag
        self.unacked[dtag] = (q, m, tag)
        deliver = spec.Basic.Deliver(consumer_tag=tag, delivery_tag=dtag, redelivered=m.redelivered,
                                     exchange="", routing_key=m.routing_key)
        dm = DeliveredMessage(delivery=deliver, header=ContentHeader(properties=m.props, body_size=len(m.body)),
                              body=m.body, channel=self)
        loop.create_task(cb(dm))

    # -- settling -----------------------------------------------------------------------
    async def basic_ack(self, delivery_tag, multiple=False, **kw):
        await asyncio.sleep(0)
        self.log.append(("ack", delivery_tag, multiple))
        for t in self._tags(delivery_tag, multiple):
            self.unacked.pop(t, None)
        self._pump(asyncio.get_running_loop())
        await self._drain()

    def _tags(self, delivery_tag, multiple):
        """AMQP: multiple=True covers every unacknowledged delivery on the channel up to and including the tag."""
        if not multiple:
            return [delivery_tag]
        return sorted(t for t in self.unacked if t <= delivery_tag or delivery_tag == 0)

    async def basic_nack(self, delivery_tag, multiple=False, requeue=True, **kw):
        await asyncio.sleep(0)
        self.log.append(("nack", delivery_tag, requeue, multiple))
        for t in self._tags(delivery_tag, multiple):
            self._settle(t, requeue)
        await self._drain()

    async def basic_reject(self, delivery_tag, requeue=True, **kw):
        await asyncio.sleep(0)
        self.log.append(("reject", delivery_tag, requeue))
        self._settle(delivery_tag, requeue)
        await self._drain()

    async def basic_recover(self, *, requeue=True, **kw):
        """basic.recover: every unacknowledged delivery of this CHANNEL (whichever consumer it went to) is requeued."""
        await asyncio.sleep(0)
        self.log.append(("recover", requeue))
        for t in sorted(self.unacked):
            self._settle(t, True)
        return spec.Basic.RecoverOk()

    async def _drain(self):
        # the frame is written (and acted upon by the server) before the client call returns; a redelivery
        # caused by it may therefore reach the consumer callback first
        for _ in range(self.server.settle_turns):
            await asyncio.sleep(0)
        if self.server.settle_delay:
            await asyncio.sleep(self.server.settle_delay)

    def _settle(self, delivery_tag, requeue):
        loop = asyncio.get_running_loop()
        item = self.unacked.pop(delivery_tag, None)
        if item is None:
            return
        q, m, _ = item
        if requeue:
            m.redelivered = True
            # RabbitMQ puts a requeued message back at its original position if possible
            pos = 0
            while pos < len(q.ready) and q.ready[pos].seq < m.seq:
                pos += 1
            q.ready.insert(pos, m)
        else:
            self.server.dead_letter(q, m, loop, reason="rejected")
        self.server.pump(loop)

    def close(self):
        """Channel/connection closed: the server requeues every delivery this channel has not settled."""
        loop = asyncio.get_running_loop()
        self.consumers.clear()
        for dtag in sorted(self.unacked):
            self._settle(dtag, True)
        self.is_closed = True

    # -- queues --------------------------------------------------------------------------
    async def queue_declare(self, queue="", *, durable=False, arguments=None, **kw):
        await asyncio.sleep(0)
        self.server.declare(queue, arguments)
        self.log.append(("declare", queue, dict(arguments or {})))
        return spec.Queue.DeclareOk(queue=queue, message_count=0, consumer_count=0)

    async def queue_purge(self, queue, **kw):
        await asyncio.sleep(0)
        q = self.server.queues.get(queue)
        n = len(q.ready) if q else 0
        if q:
            q.ready.clear()
        return spec.Queue.PurgeOk(message_count=n)

    async def queue_delete(self, queue, **kw):
        await asyncio.sleep(0)
        self.server.queues.pop(queue, None)
        return spec.Queue.DeleteOk(message_count=0)


def mk_broker(server=None):
    """A real RabbitMessageBroker wired to a fake channel (no connection is opened)."""
    from repid.connections.rabbitmq import RabbitMessageBroker
    server = server or FakeAMQPServer()
    br = RabbitMessageBroker("amqp://localhost:1/")
    ch = FakeChannel(server)
    br._RabbitMessageBroker__channel = ch
    br._RabbitMessageBroker__connection = object()
    return br, ch, server
