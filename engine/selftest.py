"""./check selftest - validates the machinery itself.

1. proxy self-test: the repository's own test vectors and boundary values go through both real
   datetime/timedelta arithmetic and the S* proxies (a mismatch is a harness error);
2. fake Redis self-test: a fixed command script against the documented replies;
3. canaries: a few seeded source changes are applied to a scratch copy of /repo (removed afterwards)
   and the matching check must report them; the unchanged scratch copy must pass.
"""
from __future__ import annotations

import asyncio
import datetime as dt
import json
import os
import shutil
import subprocess
import sys

VERIF = os.path.dirname(os.path.dirname(os.path.abspath(__file__)))


def proxies():
    import z3
    from engine import symx, vtime
    bad = []
    vectors = [
        (dt.datetime(2022, 1, 1), dt.timedelta(days=1), dt.datetime(2022, 1, 1, 0, 0, 1)),
        (dt.datetime(2022, 1, 1), dt.timedelta(days=1), dt.datetime(2022, 1, 2)),
        (dt.datetime(2022, 1, 1), dt.timedelta(days=1), dt.datetime(2022, 1, 2, 0, 0, 0, 1)),
        (dt.datetime(1999, 12, 31, 23, 59, 59, 999999), dt.timedelta(microseconds=1), dt.datetime(2000, 1, 1)),
        (dt.datetime(2024, 2, 29, 12), dt.timedelta(seconds=10), dt.datetime(2024, 2, 29, 12, 0, 25)),
        (dt.datetime(2024, 2, 29, 12), dt.timedelta(seconds=10), dt.datetime(2024, 2, 29, 11, 59, 53)),
    ]
    ctx = symx.Ctx([])
    symx.Ctx.cur = ctx
    try:
        for ts, td, now in vectors:
            ts_u, td_u, now_u = vtime.dt_us(ts), vtime.td_us(td), vtime.dt_us(now)
            s_ts, s_td, s_now = vtime.SDatetime(symx.SNum(z3.IntVal(ts_u))), vtime.STimedelta(symx.SNum(z3.IntVal(td_u))), \
                vtime.SDatetime(symx.SNum(z3.IntVal(now_u)))
            # overdue predicate
            real = now > ts + td
            sym = bool(s_now > s_ts + s_td)
            if real != sym:
                bad.append(("overdue", ts, td, now))
            # floor division and modulo incl. negative dividends
            real_q = (now - ts) // td
            sym_q = (s_now - s_ts) // s_td
            v = ctx.concretize(sym_q.e) if isinstance(sym_q, symx.SNum) else sym_q
            if real_q != v:
                bad.append(("floordiv", ts, td, now, real_q, v))
            real_next = ts + td * (real_q + 1)
            sym_next = s_ts + s_td * (sym_q + 1)
            if vtime.dt_us(real_next) != ctx.concretize(vtime.dt_us(sym_next).e):
                bad.append(("next", ts, td, now))
            if ts.timestamp() * 10**6 != ts_u - 0 and abs(ts.timestamp() * 10**6 - ts_u) > 1:
                bad.append(("timestamp() is not the UTC affine map: TZ must be UTC", ts))
        for a, b in ((7, 2), (-7, 2), (7, -2), (-7, -2), (0, 5), (10**18 + 1, 10**6)):
            q = symx.SNum(z3.IntVal(a)) // symx.SNum(z3.IntVal(b))
            m = symx.SNum(z3.IntVal(a)) % symx.SNum(z3.IntVal(b))
            if ctx.concretize(q.e) != a // b or ctx.concretize(m.e) != a % b:
                bad.append(("int floordiv/mod", a, b))
        for a in (0, 1, 2, 3, 4, 255, 256, -1, -8, 2**40 - 1, 2**40, 10**18):
            x = z3.Int(f"bl_{abs(a)}_{int(a < 0)}")
            ctx.add(x == a)
            ctx.model = None
            k = symx.SNum(x).bit_length()
            got = k if isinstance(k, int) else ctx.concretize(k.e)
            if got != a.bit_length():
                bad.append(("bit_length", a, got))
        for x in (2.5, -2.5, 0.999999, -0.000001, 3.0):
            from fractions import Fraction
            t = symx.sym_int(symx.SNum(symx._rat(Fraction(repr(x)))))
            if ctx.concretize(t.e) != int(x):
                bad.append(("trunc", x))
    finally:
        symx.Ctx.cur = None
    return bad


def fake_redis():
    from fakes.redis import FakeRedis, FakeServer
    bad = []

    async def script():
        srv = FakeServer()
        r = FakeRedis(srv)

        async def expect(label, coro, want):
            got = await coro
            if got != want:
                bad.append((label, got, want))

        await expect("lpush", r.lpush("l", "a"), 1)
        await expect("lpush2", r.lpush("l", "b"), 2)
        await expect("rpush", r.rpush("l", "c"), 3)
        await expect("lrange all", r.lrange("l", 0, -1), [b"b", b"a", b"c"])
        await expect("lrange tail window", r.lrange("l", -2, -1), [b"a", b"c"])
        await expect("lrange beyond", r.lrange("l", -10, -4), [])
        await expect("lrange -10..-1", r.lrange("l", -10, -1), [b"b", b"a", b"c"])
        await expect("lrem tail", r.lrem("l", -1, "c"), 1)
        await expect("lrem missing", r.lrem("l", -1, "zz"), 0)
        await expect("zadd", r.zadd("z", {"m1": "5", "m2": "3"}), 2)
        await expect("zadd update", r.zadd("z", {"m1": "4"}), 0)
        await expect("zrange idx", r.zrange("z", 0, 0), [b"m2"])
        await expect("zrange byscore", r.zrange("z", "-inf", 3, byscore=True, offset=0, num=10), [b"m2"])
        await expect("zrange byscore all", r.zrange("z", "-inf", 9, byscore=True, offset=0, num=10), [b"m2", b"m1"])
        await expect("zrange byscore offset", r.zrange("z", "-inf", 9, byscore=True, offset=1, num=10), [b"m1"])
        await expect("zrem", r.zrem("z", "m2"), 1)
        await expect("hsetnx new", r.hsetnx("h", "payload", "p"), 1)
        await expect("hsetnx old", r.hsetnx("h", "payload", "q"), 0)
        await expect("hget", r.hget("h", "payload"), b"p")
        await expect("hmget", r.hmget("h", keys=["payload", "nope"]), [b"p", None])
        await expect("hset mapping", r.hset("h", mapping={"payload": "x", "parameters": "y"}), 1)
        await expect("hdel", r.hdel("h", "parameters"), 1)
        await expect("get missing", r.get("k"), None)
        await expect("set", r.set("k", "v"), True)
        await expect("get", r.get("k"), b"v")
        await expect("delete", r.delete("k", "nope"), 1)
        async with r.pipeline(transaction=True) as pipe:
            pipe.lpush("q", "n1")
            pipe.lrem("q", -1, "n1")
            pipe.lrem("q", -1, "n1")
            res = await pipe.execute()
        if res != [1, 1, 0]:
            bad.append(("pipeline results", res))
        keys = [k async for k in r.scan_iter(match="h*")]
        if keys != [b"h"]:
            bad.append(("scan_iter", keys))
        items = [x async for x in r.zscan_iter("z")]
        if items != [(b"m1", 4)]:
            bad.append(("zscan_iter", items))

    asyncio.run(script())
    return bad


CANARIES = [("C19-m2", "C19"), ("C06-m2", "C06"), ("C15-m1", "C15"), ("C07-m5", "C07"), ("C20-m5", "C20"), ("C13-m9", "C13")]


def canaries():
    scratch = "/var/tmp/repid-verif-canary"
    out = []
    subprocess.run(["git", "-C", "/repo", "worktree", "prune"], check=False)
    shutil.rmtree(scratch, ignore_errors=True)
    subprocess.run(["git", "-C", "/repo", "worktree", "add", "-q", "--detach", scratch, "HEAD"], check=True)
    try:
        # overlay the working tree's uncommitted state (checks must follow /repo's current working tree)
        diff = subprocess.run(["git", "-C", "/repo", "diff", "HEAD"], capture_output=True, text=True).stdout
        if diff.strip():
            subprocess.run(["git", "-C", scratch, "apply"], input=diff, text=True, check=True)
        for seed, prop in CANARIES:
            patch = os.path.join(VERIF, "seeded", seed, "patch.diff")
            if not os.path.exists(patch):
                out.append((seed, "missing patch"))
                continue
            base = subprocess.run([os.path.join(VERIF, "check"), prop, "--repo", scratch], capture_output=True, text=True)
            if base.returncode != 0:
                out.append((seed, f"check {prop} does not pass on the unchanged scratch copy (exit {base.returncode})"))
                continue
            a = subprocess.run(["git", "-C", scratch, "apply", patch], capture_output=True, text=True)
            if a.returncode != 0:
                out.append((seed, "canary patch does not apply: " + a.stderr[:200]))
                continue
            r = subprocess.run([os.path.join(VERIF, "check"), prop, "--repo", scratch], capture_output=True, text=True)
            subprocess.run(["git", "-C", scratch, "apply", "-R", patch], check=False)
            if r.returncode != 1 or "VIOLATION property=" + prop not in r.stdout:
                out.append((seed, f"check {prop} did not report the canary (exit {r.returncode})"))
    finally:
        subprocess.run(["git", "-C", "/repo", "worktree", "remove", "--force", scratch], check=False)
        shutil.rmtree(scratch, ignore_errors=True)
        shutil.rmtree("/var/tmp/repid-verif-evidence-other", ignore_errors=True)
    return out


def main():
    bad = {"proxies": proxies(), "fake_redis": fake_redis()}
    if "--no-canaries" not in sys.argv:
        # canary runs rewrite evidence files: keep the originals
        ev = os.path.join(VERIF, "evidence")
        keep = {f: open(os.path.join(ev, f)).read() for f in os.listdir(ev)} if os.path.isdir(ev) else {}
        try:
            bad["canaries"] = canaries()
        finally:
            for f, txt in keep.items():
                open(os.path.join(ev, f), "w").write(txt)
    print(json.dumps(bad, indent=1, default=str))
    ok = not any(bad.values())
    print("selftest", "ok" if ok else "FAILED")
    return 0 if ok else 3
