"""Symbolic stand-ins for datetime / timedelta and virtual clocks.

STimedelta / SDatetime hold a microsecond count (SNum Int, or SNum Real when derived
from virtual loop time).  `VTimedelta` / `VDatetime` are the class objects patched into
repid modules under the names `timedelta` / `datetime`: constructing them with concrete
arguments yields the real stdlib objects, with symbolic arguments the proxies; their
`isinstance` accepts both.  Naive datetimes only; the process runs with TZ=UTC so that
`datetime.timestamp()` is the same affine map as the proxies use.
"""
from __future__ import annotations

import datetime as _dt
from fractions import Fraction

import z3

from engine.symx import Ctx, Q, SBool, SNum, Abort, exact

real_datetime = _dt.datetime
real_timedelta = _dt.timedelta
real_date = _dt.date
real_time = _dt.time

UNIX0 = real_datetime(1970, 1, 1)
US = real_timedelta(microseconds=1)
TD_MAX_US = real_timedelta.max // US
TD_MIN_US = real_timedelta.min // US
# epoch used by virtual loops / pinned clocks: 2024-01-01T00:00:00
EPOCH = real_datetime(2024, 1, 1)
EPOCH_US = (EPOCH - UNIX0) // US


def td_us(x):
    """timedelta-like -> microseconds (int | SNum) or NotImplemented."""
    if isinstance(x, STimedelta):
        return x.us
    if isinstance(x, real_timedelta):
        return x // US
    return NotImplemented


def dt_us(x):
    if isinstance(x, SDatetime):
        return x.us
    if isinstance(x, real_datetime):
        if x.tzinfo is not None:
            raise Abort("unsupported", "tz-aware datetime")
        return (x - UNIX0) // US
    return NotImplemented


def _is_sym(v):
    return isinstance(v, SNum)


def make_timedelta(us):
    if _is_sym(us):
        return STimedelta(us)
    if isinstance(us, Q):
        us = us.f
    if isinstance(us, Fraction):
        if us.denominator != 1:
            raise Abort("harness", "non-integral microseconds in concrete timedelta")
        us = int(us)
    return real_timedelta(microseconds=us)


def make_datetime(us):
    if _is_sym(us):
        return SDatetime(us)
    if isinstance(us, Q):
        us = us.f
    if isinstance(us, Fraction):
        us = us.numerator // us.denominator  # floor to the microsecond
    return UNIX0 + real_timedelta(microseconds=us)


class STimedelta:
    __slots__ = ("us",)

    def __getattr__(self, name):
        # an operation the proxy does not model is "unsupported" (inconclusive), never an AttributeError inside the code under test
        if name.startswith("__") or name in type(self).__slots__:
            raise AttributeError(name)
        raise Abort("unsupported", f"{type(self).__name__}.{name}")

    def __init__(self, us):
        self.us = us

    def __add__(s, o):
        t = td_us(o)
        if t is not NotImplemented:
            return make_timedelta(s.us + t)
        if isinstance(o, (real_datetime, SDatetime)):
            return make_datetime(dt_us(o) + s.us)
        return NotImplemented
    __radd__ = __add__

    def __sub__(s, o):
        o = td_us(o)
        return NotImplemented if o is NotImplemented else make_timedelta(s.us - o)

    def __rsub__(s, o):
        t = td_us(o)
        if t is not NotImplemented:
            return make_timedelta(t - s.us)
        if isinstance(o, (real_datetime, SDatetime)):
            return make_datetime(dt_us(o) - s.us)
        return NotImplemented

    def __neg__(s): return STimedelta(-s.us)
    def __pos__(s): return s
    def __abs__(s): return STimedelta(abs(s.us))

    def __mul__(s, o):
        if isinstance(o, (int, SNum)) and not isinstance(o, bool):
            return make_timedelta(s.us * o)
        if isinstance(o, float):
            raise Abort("unsupported", "timedelta * float")
        return NotImplemented
    __rmul__ = __mul__

    def __floordiv__(s, o):
        ou = td_us(o)
        if ou is not NotImplemented:
            return s.us // ou
        if isinstance(o, (int, SNum)):
            return make_timedelta(s.us // o)
        return NotImplemented

    def __rfloordiv__(s, o):
        ou = td_us(o)
        if ou is NotImplemented:
            return NotImplemented
        return SNum(z3.IntVal(ou)) // s.us if isinstance(ou, int) else ou // s.us

    def __truediv__(s, o):
        ou = td_us(o)
        if ou is not NotImplemented:
            return s.us / ou
        if isinstance(o, (int, SNum)):
            return make_timedelta(s.us // o)  # exact only when divisible; flagged as unsupported otherwise
        return NotImplemented

    def __mod__(s, o):
        ou = td_us(o)
        if ou is NotImplemented:
            return NotImplemented
        return make_timedelta(s.us % ou)

    def _cmp(s, o, fn):
        o = td_us(o)
        return NotImplemented if o is NotImplemented else fn(s.us, o)

    def __lt__(s, o): return s._cmp(o, lambda a, b: a < b)
    def __le__(s, o): return s._cmp(o, lambda a, b: a <= b)
    def __gt__(s, o): return s._cmp(o, lambda a, b: a > b)
    def __ge__(s, o): return s._cmp(o, lambda a, b: a >= b)

    def __eq__(s, o):
        r = s._cmp(o, lambda a, b: a == b)
        return False if r is NotImplemented else r

    def __ne__(s, o):
        r = s._cmp(o, lambda a, b: a != b)
        return True if r is NotImplemented else r

    def __hash__(s): return 5
    def __bool__(s): return bool(s.us != 0)
    def __deepcopy__(s, memo): return s
    def __copy__(s): return s
    def __repr__(s): return f"STimedelta({s.us!r} us)"
    def __str__(s): return Ctx.cur.sentinel_str(s)

    def total_seconds(s):
        return s.us / 1000000

    @property
    def days(s):
        return s.us // (86400 * 1000000)

    @property
    def seconds(s):
        return (s.us // 1000000) % 86400

    @property
    def microseconds(s):
        return s.us % 1000000


class SDatetime:
    __slots__ = ("us",)
    tzinfo = None

    def __getattr__(self, name):
        # an operation the proxy does not model is "unsupported" (inconclusive), never an AttributeError inside the code under test
        if name.startswith("__") or name in type(self).__slots__:
            raise AttributeError(name)
        raise Abort("unsupported", f"{type(self).__name__}.{name}")

    def __init__(self, us):
        self.us = us

    def __add__(s, o):
        o = td_us(o)
        return NotImplemented if o is NotImplemented else make_datetime(s.us + o)
    __radd__ = __add__

    def __sub__(s, o):
        t = td_us(o)
        if t is not NotImplemented:
            return make_datetime(s.us - t)
        d = dt_us(o)
        if d is not NotImplemented:
            return make_timedelta(s.us - d)
        return NotImplemented

    def __rsub__(s, o):
        d = dt_us(o)
        return NotImplemented if d is NotImplemented else make_timedelta(d - s.us)

    def _cmp(s, o, fn):
        o = dt_us(o)
        return NotImplemented if o is NotImplemented else fn(s.us, o)

    def __lt__(s, o): return s._cmp(o, lambda a, b: a < b)
    def __le__(s, o): return s._cmp(o, lambda a, b: a <= b)
    def __gt__(s, o): return s._cmp(o, lambda a, b: a > b)
    def __ge__(s, o): return s._cmp(o, lambda a, b: a >= b)

    def __eq__(s, o):
        r = s._cmp(o, lambda a, b: a == b)
        return False if r is NotImplemented else r

    def __ne__(s, o):
        r = s._cmp(o, lambda a, b: a != b)
        return True if r is NotImplemented else r

    def __hash__(s): return 6
    def __deepcopy__(s, memo): return s
    def __copy__(s): return s
    def __repr__(s): return f"SDatetime({s.us!r} us)"
    def __str__(s): return Ctx.cur.sentinel_str(s)

    def timestamp(s):
        return s.us / 1000000

    def isoformat(s, *a, **k):
        return Ctx.cur.sentinel_str(s)

    def replace(s, **kw):
        if kw.get("tzinfo", None) is None and set(kw) <= {"tzinfo"}:
            return s
        raise Abort("unsupported", "SDatetime.replace")


# --------------------------------------------------------------------------------------
# class objects patched into repid modules


class _TDMeta(type):
    def __instancecheck__(cls, obj):
        return isinstance(obj, (real_timedelta, STimedelta))

    def __subclasscheck__(cls, sub):
        return issubclass(sub, (real_timedelta, STimedelta))


class VTimedelta(metaclass=_TDMeta):
    min = real_timedelta.min
    max = real_timedelta.max
    resolution = real_timedelta.resolution

    def __new__(cls, days=0, seconds=0, microseconds=0, milliseconds=0, minutes=0, hours=0, weeks=0):
        parts = ((days, 86400 * 10**6), (seconds, 10**6), (microseconds, 1), (milliseconds, 1000),
                 (minutes, 60 * 10**6), (hours, 3600 * 10**6), (weeks, 7 * 86400 * 10**6))
        if not any(isinstance(v, (SNum, Q)) for v, _ in parts):
            return real_timedelta(days=days, seconds=seconds, microseconds=microseconds,
                                  milliseconds=milliseconds, minutes=minutes, hours=hours, weeks=weeks)
        total = 0
        for v, mult in parts:
            if isinstance(v, float):
                v = Fraction(repr(v))
            if isinstance(v, (SNum, Q)) or v:
                total = total + v * mult
        if isinstance(total, SNum):
            # seconds given as an exact real: the microsecond count is that real times 1e6
            # (lemma L-FP covers the float rounding of the real CPython constructor).
            if not (total <= TD_MAX_US) or not (total >= TD_MIN_US):
                raise OverflowError("days=...; must have magnitude <= 999999999")
            return STimedelta(total)
        return make_timedelta(total)


class _DTMeta(type):
    def __instancecheck__(cls, obj):
        return isinstance(obj, (real_datetime, SDatetime))

    def __subclasscheck__(cls, sub):
        return issubclass(sub, (real_datetime, SDatetime))


class VDatetime(metaclass=_DTMeta):
    """Stands for the name `datetime` (the class) inside a repid module."""
    min = real_datetime.min
    max = real_datetime.max

    def __new__(cls, *a, **k):
        return real_datetime(*a, **k)

    @staticmethod
    def now(tz=None):
        clock = current_clock()
        if clock is None:
            return real_datetime.now(tz)
        v = clock.now()
        if tz is not None:
            # the virtual clock is naive UTC (TZ=UTC): an aware "now" is that instant seen from the zone asked for
            if not isinstance(v, real_datetime):
                raise TypeError("a symbolic clock read in a time zone is not modelled (aware datetimes are concrete in the harnesses)")
            return v.replace(tzinfo=_dt.timezone.utc).astimezone(tz)
        return v

    @staticmethod
    def utcnow():
        return VDatetime.now()

    @staticmethod
    def fromisoformat(s):
        if isinstance(s, SDatetime):
            return s          # a sentinel already mapped back: stands for "the ISO text of this instant"
        c = Ctx.cur
        if c is not None and s in c.sentinels:
            v = c.sentinels[s]
            if isinstance(v, (SDatetime, real_datetime)):
                return v
            raise ValueError(f"Invalid isoformat string: {s!r}")
        return real_datetime.fromisoformat(s)

    @staticmethod
    def fromtimestamp(ts, tz=None):
        if isinstance(ts, SNum):
            return SDatetime(ts * 1000000)
        if isinstance(ts, Q):
            return make_datetime(ts.f * 1000000)
        return real_datetime.fromtimestamp(ts, tz)

    @staticmethod
    def strptime(*a):
        return real_datetime.strptime(*a)


class _DateMeta(type):
    def __instancecheck__(cls, obj):
        return isinstance(obj, (real_date, SDatetime))


class VDate(metaclass=_DateMeta):
    def __new__(cls, *a, **k):
        return real_date(*a, **k)


# --------------------------------------------------------------------------------------
# clocks

_CLOCK = None


def current_clock():
    return _CLOCK


def set_clock(c):
    global _CLOCK
    _CLOCK = c


class PinnedClock:
    """now() returns the value the harness last set (µs since 1970; int or SNum)."""

    def __init__(self, us):
        self.us = us
        self.reads = 0

    def set(self, us):
        self.us = us

    def advance(self, d_us):
        self.us = self.us + d_us

    def now_us(self):
        self.reads += 1
        return self.us

    def now(self):
        return make_datetime(self.now_us())

    def time(self):
        us = self.now_us()
        return us / 1000000 if isinstance(us, SNum) else Q(Fraction(us, 1000000))

    def time_ns(self):
        return self.now_us() * 1000


class FreeClock:
    """Every read returns a fresh instant, non-decreasing across reads (the clock contract)."""

    def __init__(self, S, prefix="now", lo_us=None, hi_us=None):
        self.S = S
        self.prefix = prefix
        self.reads = []
        self.lo = lo_us
        self.hi = hi_us

    def now_us(self):
        v = self.S.int(f"{self.prefix}{len(self.reads)}", self.lo, self.hi)
        if self.reads:
            self.S.assume(v >= self.reads[-1])
        self.reads.append(v)
        return v

    def now(self):
        return make_datetime(self.now_us())

    def time(self):
        us = self.now_us()
        return us / 1000000 if isinstance(us, SNum) else Q(Fraction(us, 1000000))

    def time_ns(self):
        return self.now_us() * 1000


class LoopClock:
    """now() = EPOCH + virtual loop time."""

    def __init__(self, loop, epoch_us=EPOCH_US):
        self.loop = loop
        self.epoch_us = epoch_us

    def now_us(self):
        t = self.loop.time()
        return self.epoch_us + t * 1000000

    def now(self):
        return make_datetime(self.now_us())

    def time(self):
        t = self.loop.time()
        return t + Fraction(self.epoch_us, 1000000)

    def time_ns(self):
        us = self.now_us()
        if isinstance(us, Q):
            return int(us.f * 1000)
        return us * 1000


class VTimeModule:
    """Stands for the `time` module inside a repid module."""

    @staticmethod
    def time():
        c = current_clock()
        if c is None:
            import time
            return time.time()
        return c.time()

    @staticmethod
    def time_ns():
        c = current_clock()
        if c is None:
            import time
            return time.time_ns()
        return c.time_ns()

    @staticmethod
    def perf_counter():
        import time
        return time.perf_counter()
