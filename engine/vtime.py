"""Symbolic stand-ins for datetime / timedelta and virtual clocks.

STimedelta / SDatetime hold a microsecond count (SNum Int, or SNum Real when derived
from virtual loop time).  `VTimedelta` / `VDatetime` are the class objects patched into
repid modules under the names `timedelta` / `datetime`: constructing them with concrete
arguments yields the real stdlib objects, with symbolic arguments the proxies; their
`isinstance` accepts both.  The process runs with TZ=UTC so that `datetime.timestamp()` is the same
affine map as the proxies use; a harness may make the zone a (symbolic) input with `local_zone(offset_us)`:
clock values are then local wall-clock microseconds, `time.time()`/`.timestamp()` are `local - offset`, and in
concrete mode (replay) the process zone is switched with tzset() for the duration.  Aware symbolic datetimes
carry a fixed UTC offset.
"""
from __future__ import annotations

import datetime as _dt
from fractions import Fraction

import z3

from engine.symx import Ctx, Q, SBool, SNum, Abort, exact

real_datetime = _dt.datetime
real_timedelta = _dt.timedelta
real_date = _dt.date
real_time = _dt.time

UNIX0 = real_datetime(1970, 1, 1)
US = real_timedelta(microseconds=1)
TD_MAX_US = real_timedelta.max // US
TD_MIN_US = real_timedelta.min // US
# epoch used by virtual loops / pinned clocks: 2024-01-01T00:00:00
EPOCH = real_datetime(2024, 1, 1)
EPOCH_US = (EPOCH - UNIX0) // US


# local wall clock = UTC + ZONE_US (int | SNum); 0 unless a harness opted in with local_zone()
ZONE_US = 0


def zone():
    return ZONE_US


class local_zone:
    """with local_zone(off_us): ...  - symbolic offset: only the proxies see it; concrete offset: the process zone too."""

    def __init__(self, off_us):
        self.off = off_us

    def __enter__(self):
        global ZONE_US
        import os, time
        self.prev, self.prev_env = ZONE_US, os.environ.get("TZ")
        ZONE_US = self.off
        if not isinstance(self.off, SNum):
            secs = int(self.off) // 1000000
            sign = "-" if secs >= 0 else "+"            # POSIX: the sign is west of Greenwich
            a = abs(secs)
            os.environ["TZ"] = "LCL%s%02d:%02d:%02d" % (sign, a // 3600, a % 3600 // 60, a % 60)
            time.tzset()
        return self

    def __exit__(self, *exc):
        global ZONE_US
        import os, time
        ZONE_US = self.prev
        if self.prev_env is None:
            os.environ.pop("TZ", None)
        else:
            os.environ["TZ"] = self.prev_env
        time.tzset()
        return False


def td_us(x):
    """timedelta-like -> microseconds (int | SNum) or NotImplemented."""
    if isinstance(x, STimedelta):
        return x.us
    if isinstance(x, real_timedelta):
        return x // US
    return NotImplemented


def dt_parts(x):
    """datetime-like -> (wall-clock µs, utc offset µs or None for naive) or NotImplemented."""
    if isinstance(x, SDatetime):
        return x.us, x.off
    if isinstance(x, real_datetime):
        if x.tzinfo is not None:
            off = x.utcoffset()
            if off is None:
                return (x.replace(tzinfo=None) - UNIX0) // US, None
            return (x.replace(tzinfo=None) - UNIX0) // US, off // US
        return (x - UNIX0) // US, None
    return NotImplemented


def dt_us(x):
    """naive datetime-like -> µs; aware ones are not accepted here."""
    p = dt_parts(x)
    if p is NotImplemented:
        return p
    if p[1] is not None:
        raise Abort("unsupported", "tz-aware datetime where a naive one is expected")
    return p[0]


def _pair(a, b, what):
    """Both naive -> wall µs; both aware -> UTC µs; mixed -> TypeError like CPython."""
    (ua, oa), (ub, ob) = a, b
    if (oa is None) != (ob is None):
        raise TypeError(f"can't {what} offset-naive and offset-aware datetimes")
    if oa is None:
        return ua, ub
    return ua - oa, ub - ob


def make_aware(wall_us, off_us):
    if _is_sym(wall_us) or _is_sym(off_us):
        return SDatetime(wall_us, off_us)
    d = make_datetime(wall_us)
    return d.replace(tzinfo=_dt.timezone(real_timedelta(microseconds=int(off_us))))


def _is_sym(v):
    return isinstance(v, SNum)


def make_timedelta(us):
    if _is_sym(us):
        return STimedelta(us)
    if isinstance(us, Q):
        us = us.f
    if isinstance(us, Fraction):
        if us.denominator != 1:
            raise Abort("harness", "non-integral microseconds in concrete timedelta")
        us = int(us)
    return real_timedelta(microseconds=us)


def make_datetime(us):
    if _is_sym(us):
        return SDatetime(us)
    if isinstance(us, Q):
        us = us.f
    if isinstance(us, Fraction):
        us = us.numerator // us.denominator  # floor to the microsecond
    return UNIX0 + real_timedelta(microseconds=us)


class STimedelta:
    __slots__ = ("us",)

    def __getattr__(self, name):
        # an operation the proxy does not model is "unsupported" (inconclusive), never an AttributeError inside the code under test
        if name.startswith("__") or name in type(self).__slots__:
            raise AttributeError(name)
        raise Abort("unsupported", f"{type(self).__name__}.{name}")

    def __init__(self, us):
        self.us = us

    def __add__(s, o):
        t = td_us(o)
        if t is not NotImplemented:
            return make_timedelta(s.us + t)
        if isinstance(o, (real_datetime, SDatetime)):
            return make_datetime(dt_us(o) + s.us)
        return NotImplemented
    __radd__ = __add__

    def __sub__(s, o):
        o = td_us(o)
        return NotImplemented if o is NotImplemented else make_timedelta(s.us - o)

    def __rsub__(s, o):
        t = td_us(o)
        if t is not NotImplemented:
            return make_timedelta(t - s.us)
        if isinstance(o, (real_datetime, SDatetime)):
            return make_datetime(dt_us(o) - s.us)
        return NotImplemented

    def __neg__(s): return STimedelta(-s.us)
    def __pos__(s): return s
    def __abs__(s): return STimedelta(abs(s.us))

    def __mul__(s, o):
        if isinstance(o, (int, SNum)) and not isinstance(o, bool):
            return make_timedelta(s.us * o)
        if isinstance(o, float):
            raise Abort("unsupported", "timedelta * float")
        return NotImplemented
    __rmul__ = __mul__

    def __floordiv__(s, o):
        ou = td_us(o)
        if ou is not NotImplemented:
            return s.us // ou
        if isinstance(o, (int, SNum)):
            return make_timedelta(s.us // o)
        return NotImplemented

    def __rfloordiv__(s, o):
        ou = td_us(o)
        if ou is NotImplemented:
            return NotImplemented
        return SNum(z3.IntVal(ou)) // s.us if isinstance(ou, int) else ou // s.us

    def __truediv__(s, o):
        ou = td_us(o)
        if ou is not NotImplemented:
            return s.us / ou
        if isinstance(o, (int, SNum)):
            return make_timedelta(s.us // o)  # exact only when divisible; flagged as unsupported otherwise
        return NotImplemented

    def __mod__(s, o):
        ou = td_us(o)
        if ou is NotImplemented:
            return NotImplemented
        return make_timedelta(s.us % ou)

    def _cmp(s, o, fn):
        o = td_us(o)
        return NotImplemented if o is NotImplemented else fn(s.us, o)

    def __lt__(s, o): return s._cmp(o, lambda a, b: a < b)
    def __le__(s, o): return s._cmp(o, lambda a, b: a <= b)
    def __gt__(s, o): return s._cmp(o, lambda a, b: a > b)
    def __ge__(s, o): return s._cmp(o, lambda a, b: a >= b)

    def __eq__(s, o):
        r = s._cmp(o, lambda a, b: a == b)
        return False if r is NotImplemented else r

    def __ne__(s, o):
        r = s._cmp(o, lambda a, b: a != b)
        return True if r is NotImplemented else r

    def __hash__(s): return 5
    def __bool__(s): return bool(s.us != 0)
    def __deepcopy__(s, memo): return s
    def __copy__(s): return s
    def __repr__(s): return f"STimedelta({s.us!r} us)"
    def __str__(s): return Ctx.cur.sentinel_str(s)

    def total_seconds(s):
        return s.us / 1000000

    @property
    def days(s):
        return s.us // (86400 * 1000000)

    @property
    def seconds(s):
        return (s.us // 1000000) % 86400

    @property
    def microseconds(s):
        return s.us % 1000000


class SDatetime:
    """us: wall-clock µs since 1970; off: None (naive, local wall clock) or the fixed UTC offset in µs (aware)."""
    __slots__ = ("us", "off")

    def __getattr__(self, name):
        # an operation the proxy does not model is "unsupported" (inconclusive), never an AttributeError inside the code under test
        if name.startswith("__") or name in type(self).__slots__:
            raise AttributeError(name)
        raise Abort("unsupported", f"{type(self).__name__}.{name}")

    def __init__(self, us, off=None):
        self.us = us
        self.off = off

    @property
    def tzinfo(s):
        if s.off is None:
            return None
        if _is_sym(s.off):
            raise Abort("unsupported", "tzinfo object of a symbolic offset")
        return _dt.timezone(real_timedelta(microseconds=int(s.off)))

    def utcoffset(s):
        return None if s.off is None else make_timedelta(s.off)

    def _mk(s, us):
        return make_datetime(us) if s.off is None else make_aware(us, s.off)

    def __add__(s, o):
        o = td_us(o)
        return NotImplemented if o is NotImplemented else s._mk(s.us + o)
    __radd__ = __add__

    def __sub__(s, o):
        t = td_us(o)
        if t is not NotImplemented:
            return s._mk(s.us - t)
        d = dt_parts(o)
        if d is not NotImplemented:
            a, b = _pair((s.us, s.off), d, "subtract")
            return make_timedelta(a - b)
        return NotImplemented

    def __rsub__(s, o):
        d = dt_parts(o)
        if d is NotImplemented:
            return NotImplemented
        a, b = _pair(d, (s.us, s.off), "subtract")
        return make_timedelta(a - b)

    def _cmp(s, o, fn):
        d = dt_parts(o)
        if d is NotImplemented:
            return NotImplemented
        a, b = _pair((s.us, s.off), d, "compare")
        return fn(a, b)

    def __lt__(s, o): return s._cmp(o, lambda a, b: a < b)
    def __le__(s, o): return s._cmp(o, lambda a, b: a <= b)
    def __gt__(s, o): return s._cmp(o, lambda a, b: a > b)
    def __ge__(s, o): return s._cmp(o, lambda a, b: a >= b)

    def __eq__(s, o):
        d = dt_parts(o)
        if d is NotImplemented or (d[1] is None) != (s.off is None):
            return False
        return s._cmp(o, lambda a, b: a == b)

    def __ne__(s, o):
        d = dt_parts(o)
        if d is NotImplemented or (d[1] is None) != (s.off is None):
            return True
        return s._cmp(o, lambda a, b: a != b)

    def __hash__(s): return 6
    def __deepcopy__(s, memo): return s
    def __copy__(s): return s
    def __repr__(s): return f"SDatetime({s.us!r} us, off={s.off!r})"
    def __str__(s): return Ctx.cur.sentinel_str(s)

    def timestamp(s):
        # naive: local wall clock (mktime); aware: its own offset
        return (s.us - (zone() if s.off is None else s.off)) / 1000000

    def isoformat(s, *a, **k):
        return Ctx.cur.sentinel_str(s)

    def replace(s, **kw):
        if set(kw) <= {"tzinfo"}:
            tz = kw.get("tzinfo", None)
            if tz is None:
                return SDatetime(s.us) if s.off is not None else s
            if isinstance(tz, _dt.timezone):
                return SDatetime(s.us, tz.utcoffset(None) // US)
        if set(kw) == {"microsecond"} and kw["microsecond"] == 0:
            return SDatetime(s.us - s.us % 1000000, s.off)          # truncated to the whole second
        raise Abort("unsupported", "SDatetime.replace")

    def astimezone(s, tz=None):
        utc = s.us - (zone() if s.off is None else s.off)
        if tz is None:
            return make_aware(utc + zone(), zone())
        if isinstance(tz, _dt.timezone):
            off = tz.utcoffset(None) // US
            return make_aware(utc + off, off)
        raise Abort("unsupported", "SDatetime.astimezone to a non-fixed zone")


# --------------------------------------------------------------------------------------
# class objects patched into repid modules


class _TDMeta(type):
    def __instancecheck__(cls, obj):
        return isinstance(obj, (real_timedelta, STimedelta))

    def __subclasscheck__(cls, sub):
        return issubclass(sub, (real_timedelta, STimedelta))


class VTimedelta(metaclass=_TDMeta):
    min = real_timedelta.min
    max = real_timedelta.max
    resolution = real_timedelta.resolution

    def __new__(cls, days=0, seconds=0, microseconds=0, milliseconds=0, minutes=0, hours=0, weeks=0):
        parts = ((days, 86400 * 10**6), (seconds, 10**6), (microseconds, 1), (milliseconds, 1000),
                 (minutes, 60 * 10**6), (hours, 3600 * 10**6), (weeks, 7 * 86400 * 10**6))
        if not any(isinstance(v, (SNum, Q)) for v, _ in parts):
            return real_timedelta(days=days, seconds=seconds, microseconds=microseconds,
                                  milliseconds=milliseconds, minutes=minutes, hours=hours, weeks=weeks)
        total = 0
        for v, mult in parts:
            if isinstance(v, float):
                v = Fraction(repr(v))
            if isinstance(v, (SNum, Q)) or v:
                total = total + v * mult
        if isinstance(total, SNum):
            # seconds given as an exact real: the microsecond count is that real times 1e6
            # (lemma L-FP covers the float rounding of the real CPython constructor).
            if not (total <= TD_MAX_US) or not (total >= TD_MIN_US):
                raise OverflowError("days=...; must have magnitude <= 999999999")
            return STimedelta(total)
        return make_timedelta(total)


class _DTMeta(type):
    def __instancecheck__(cls, obj):
        return isinstance(obj, (real_datetime, SDatetime))

    def __subclasscheck__(cls, sub):
        return issubclass(sub, (real_datetime, SDatetime))


class VDatetime(metaclass=_DTMeta):
    """Stands for the name `datetime` (the class) inside a repid module."""
    min = real_datetime.min
    max = real_datetime.max

    def __new__(cls, *a, **k):
        return real_datetime(*a, **k)

    @staticmethod
    def now(tz=None):
        clock = current_clock()
        if clock is None:
            return real_datetime.now(tz)
        v = clock.now()
        if tz is not None:
            # the virtual clock is the local wall clock (UTC unless a harness set a zone): an aware "now" is that
            # instant seen from the zone asked for
            if not isinstance(tz, _dt.timezone):
                if isinstance(v, real_datetime) and not _is_sym(zone()):
                    return (v - real_timedelta(microseconds=int(zone()))).replace(tzinfo=_dt.timezone.utc).astimezone(tz)
                raise Abort("unsupported", "a symbolic clock read in a non-fixed time zone")
            off = tz.utcoffset(None) // US
            return make_aware(dt_us(v) - zone() + off, off)
        return v

    @staticmethod
    def utcnow():
        clock = current_clock()
        if clock is None:
            return real_datetime.utcnow()
        v = clock.now()
        z = zone()
        return v if (not _is_sym(z) and z == 0) else make_datetime(dt_us(v) - z)

    @staticmethod
    def fromisoformat(s):
        if isinstance(s, SDatetime):
            return s          # a sentinel already mapped back: stands for "the ISO text of this instant"
        c = Ctx.cur
        if c is not None and s in c.sentinels:
            v = c.sentinels[s]
            if isinstance(v, (SDatetime, real_datetime)):
                return v
            raise ValueError(f"Invalid isoformat string: {s!r}")
        return real_datetime.fromisoformat(s)

    @staticmethod
    def fromtimestamp(ts, tz=None):
        if tz is not None and not isinstance(tz, _dt.timezone):
            if isinstance(ts, (SNum, Q)):
                raise Abort("unsupported", "fromtimestamp of a symbolic instant in a non-fixed zone")
            return real_datetime.fromtimestamp(ts, tz)
        if isinstance(ts, (SNum, Q)) or _is_sym(zone()):
            us = (ts.f if isinstance(ts, Q) else exact(ts) if not isinstance(ts, SNum) else ts) * 1000000
            if tz is None:
                return make_datetime(us + zone())
            off = tz.utcoffset(None) // US
            return make_aware(us + off, off)
        return real_datetime.fromtimestamp(ts, tz)

    @staticmethod
    def strptime(*a):
        return real_datetime.strptime(*a)


class _DateMeta(type):
    def __instancecheck__(cls, obj):
        return isinstance(obj, (real_date, SDatetime))


class VDate(metaclass=_DateMeta):
    def __new__(cls, *a, **k):
        return real_date(*a, **k)


# --------------------------------------------------------------------------------------
# clocks

_CLOCK = None


def current_clock():
    return _CLOCK


def set_clock(c):
    global _CLOCK
    _CLOCK = c


class PinnedClock:
    """now() returns the value the harness last set (µs since 1970; int or SNum)."""

    def __init__(self, us):
        self.us = us
        self.reads = 0

    def set(self, us):
        self.us = us

    def advance(self, d_us):
        self.us = self.us + d_us

    def now_us(self):
        self.reads += 1
        return self.us

    def now(self):
        return make_datetime(self.now_us())

    def time(self):
        us = self.now_us() - zone()
        return us / 1000000 if isinstance(us, SNum) else Q(Fraction(us, 1000000))

    def time_ns(self):
        return (self.now_us() - zone()) * 1000


class FreeClock:
    """Every read returns a fresh instant, non-decreasing across reads (the clock contract)."""

    def __init__(self, S, prefix="now", lo_us=None, hi_us=None):
        self.S = S
        self.prefix = prefix
        self.reads = []
        self.lo = lo_us
        self.hi = hi_us

    def now_us(self):
        v = self.S.int(f"{self.prefix}{len(self.reads)}", self.lo, self.hi)
        if self.reads:
            self.S.assume(v >= self.reads[-1])
        self.reads.append(v)
        return v

    def now(self):
        return make_datetime(self.now_us())

    def time(self):
        us = self.now_us() - zone()
        return us / 1000000 if isinstance(us, SNum) else Q(Fraction(us, 1000000))

    def time_ns(self):
        return (self.now_us() - zone()) * 1000


class LoopClock:
    """now() = EPOCH + virtual loop time."""

    def __init__(self, loop, epoch_us=EPOCH_US):
        self.loop = loop
        self.epoch_us = epoch_us

    def now_us(self):
        t = self.loop.time()
        return self.epoch_us + t * 1000000

    def now(self):
        return make_datetime(self.now_us())

    def time(self):
        t = self.loop.time()
        z = zone()
        if _is_sym(z):
            return t + Fraction(self.epoch_us, 1000000) - z / 1000000
        return t + Fraction(self.epoch_us - z, 1000000)

    def time_ns(self):
        us = self.now_us() - zone()
        if isinstance(us, Q):
            return int(us.f * 1000)
        return us * 1000


class VTimeModule:
    """Stands for the `time` module inside a repid module."""

    @staticmethod
    def time():
        c = current_clock()
        if c is None:
            import time
            return time.time()
        return c.time()

    @staticmethod
    def time_ns():
        c = current_clock()
        if c is None:
            import time
            return time.time_ns()
        return c.time_ns()

    # the monotonic clocks count from an arbitrary origin (here: the process start, about two days of uptime before the
    # harness epoch), never from 1970: a value read from one of them is not comparable with time()/time_ns()
    _MONOTONIC_ORIGIN_NS = 172_800 * 10**9

    @staticmethod
    def perf_counter_ns():
        c = current_clock()
        if c is None:
            import time
            return time.perf_counter_ns()
        return c.time_ns() - EPOCH_US * 1000 + VTimeModule._MONOTONIC_ORIGIN_NS

    @staticmethod
    def perf_counter():
        c = current_clock()
        if c is None:
            import time
            return time.perf_counter()
        return VTimeModule.perf_counter_ns() / 10**9

    monotonic = perf_counter
    monotonic_ns = perf_counter_ns
