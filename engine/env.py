"""Environment plumbing: module-global shadowing, sentinel JSON, loggers, randomness.

No repid source is modified.  Names that repid modules look up as module globals
(`datetime`, `timedelta`, `time`, `int`, `float`, `json`, `random`) are shadowed by
setting attributes on those modules; the stand-ins return the real stdlib objects for
concrete arguments, so the patched modules behave identically in concrete replays.
Every patched (module, name) pair is listed in the evidence under `assumptions`.
"""
from __future__ import annotations

import importlib
import json as real_json
import logging
import os
import sys

from engine import vtime
from engine.symx import Ctx, Q, SBool, SNum, sym_float, sym_int
from engine.vtime import SDatetime, STimedelta, VDate, VDatetime, VTimedelta, VTimeModule


class JsonStub:
    """`json` inside repid modules: loads() maps sentinel strings back to symbolic leaves."""

    def __getattr__(self, name):
        return getattr(real_json, name)

    @staticmethod
    def loads(s, *a, **k):
        obj = real_json.loads(s, *a, **k)
        c = Ctx.cur
        if c is None or not c.sentinels:
            return obj
        return _unsentinel(obj, c.sentinels)


def _unsentinel(o, table):
    if isinstance(o, dict):
        return {k: _unsentinel(v, table) for k, v in o.items()}
    if isinstance(o, list):
        return [_unsentinel(v, table) for v in o]
    if isinstance(o, str) and o in table:
        return table[o]
    return o


class RandomStub:
    """`random` inside repid.connections.redis.utils."""
    source = None  # callable returning a number in [0, 1]; default: fixed 0.5 (MEDIUM first)

    def __getattr__(self, name):
        import random
        return getattr(random, name)

    def random(self):
        if RandomStub.source is not None:
            return RandomStub.source()
        return 0.5


JSON = JsonStub()
RANDOM = RandomStub()

PATCHES = {
    "repid.data._parameters": {"datetime": VDatetime, "timedelta": VTimedelta, "float": sym_float, "int": sym_int, "json": JSON},
    "repid.data._buckets": {"datetime": VDatetime, "timedelta": VTimedelta, "float": sym_float, "int": sym_int, "json": JSON},
    "repid._utils.json_encoder": {"datetime": VDatetime, "timedelta": VTimedelta, "date": VDate, "time": VDate},
    "repid._processor": {"datetime": VDatetime, "time": VTimeModule},
    "repid.job": {"datetime": VDatetime, "timedelta": VTimedelta, "int": sym_int},
    "repid.message": {"timedelta": VTimedelta},
    "repid.dependencies.message_dependency": {"datetime": VDatetime, "timedelta": VTimedelta, "time": VTimeModule},
    "repid.connections.in_memory.consumer": {"datetime": VDatetime},
    "repid.connections.redis.utils": {"time": VTimeModule, "int": sym_int, "random": RANDOM},
    "repid.connections.redis.message_broker": {"datetime": VDatetime},
    "repid.connections.rabbitmq.message_broker": {"datetime": VDatetime, "int": sym_int},
    "repid.connections.rabbitmq.consumer": {"json": JSON},
    "repid.retry_policy": {"timedelta": VTimedelta, "int": sym_int, "float": sym_float},
}

_installed = []
_orig_default = None


def repo_root():
    return os.environ.get("VERIF_REPO", "/repo")


def use_repo():
    """Make `import repid` resolve to the tree under test (default /repo's working tree)."""
    root = repo_root()
    if sys.path[0] != root:
        sys.path.insert(0, root)
    import repid
    got = os.path.dirname(os.path.dirname(os.path.abspath(repid.__file__)))
    if os.path.realpath(got) != os.path.realpath(root):
        raise RuntimeError(f"repid imported from {got}, expected {root}")
    return repid


def install(only=None):
    """Shadow the module globals (idempotent)."""
    global _orig_default
    use_repo()
    # logging stays as an application leaves it by default: records of level WARNING and above are created and
    # formatted by repid's adapter (its logger only has a NullHandler, so nothing is printed); a harness may turn
    # debug logging on (C17).  Disabling logging altogether would hide defects inside error-level log calls.
    logging.getLogger("repid").setLevel(logging.NOTSET)
    for modname, names in PATCHES.items():
        if only is not None and modname not in only:
            continue
        try:
            mod = importlib.import_module(modname)
        except ImportError:
            continue
        for name, val in names.items():
            if (modname, name) in _installed:
                continue
            # only shadow names the module really uses as globals (or builtins)
            if name not in ("int", "float", "str") and not hasattr(mod, name):
                continue
            setattr(mod, name, val)
            _installed.append((modname, name))
    if only is None:
        _sweep()
    je = importlib.import_module("repid._utils.json_encoder")
    if _orig_default is None:
        _orig_default = je._RepidJSONEncoder.default

        def default(self, obj):
            if isinstance(obj, (SNum, SBool)):
                return Ctx.cur.sentinel_str(obj)
            if isinstance(obj, Q):
                return float(obj.f)
            return _orig_default(self, obj)

        je._RepidJSONEncoder.default = default
    return list(_installed)


# names the sweep leaves alone, with the reason (part of the claim)
SWEEP_SKIP = {("repid.health_check_server", "time"): "only formats the Date response header (wsgiref needs a float); no property reads it"}


def _sweep():
    """Shadow the clock names in every other module of the package under test.

    The table above names the modules that read the clock today; a change may move such code into
    another (or a new) module.  Every module of the `repid` package is imported and any module
    global that *is* the real `datetime.datetime`, `datetime.timedelta` or the `time` module is
    shadowed by the same stand-ins, so no module of the tree under test reads the wall clock."""
    import datetime as _dt
    import pkgutil
    import time as _time
    import repid
    for info in pkgutil.walk_packages(repid.__path__, "repid."):
        if info.name.startswith("repid.testing"):
            continue
        try:
            importlib.import_module(info.name)
        except Exception:  # noqa: BLE001  (optional dependency missing)
            continue
    for modname, mod in sorted(sys.modules.items()):
        if mod is None or not (modname == "repid" or modname.startswith("repid.")) or modname.startswith("repid.testing"):
            continue
        for name, val in list(vars(mod).items()):
            if (modname, name) in _installed or (modname, name) in SWEEP_SKIP:
                continue
            if val is _dt.datetime:
                new = VDatetime
            elif val is _dt.timedelta:
                new = VTimedelta
            elif val is _time:
                new = VTimeModule
            else:
                continue
            setattr(mod, name, new)
            _installed.append((modname, name))
        # the conversions int(...) / float(...) keep symbolic numbers symbolic where a module uses the names for nothing else
        for name, new in (("int", sym_int), ("float", sym_float)):
            if (modname, name) in _installed or name in vars(mod):
                continue
            if _only_called(mod, name):
                setattr(mod, name, new)
                _installed.append((modname, name))


def _only_called(mod, name):
    """True if the module's source uses the builtin `name` only as the function of a call (annotations aside)."""
    import ast
    import inspect
    try:
        tree = ast.parse(inspect.getsource(mod))
    except (OSError, TypeError, SyntaxError):
        return False
    future_annotations = any(isinstance(n, ast.ImportFrom) and n.module == "__future__" and any(a.name == "annotations" for a in n.names) for n in tree.body)
    called, other = set(), set()
    ann_nodes = set()
    for n in ast.walk(tree):
        for field in ("annotation", "returns"):
            a = getattr(n, field, None)
            if a is not None:
                ann_nodes.update(id(x) for x in ast.walk(a))
    for n in ast.walk(tree):
        if isinstance(n, ast.Call) and isinstance(n.func, ast.Name) and n.func.id == name:
            called.add(id(n.func))
    for n in ast.walk(tree):
        if isinstance(n, ast.Name) and n.id == name and id(n) not in called:
            if id(n) in ann_nodes and future_annotations:
                continue
            other.add(id(n))
    return bool(called) and not other


def installed_names():
    return [f"{m}.{n}" for m, n in _installed]


def silence_asyncio():
    logging.getLogger("asyncio").setLevel(logging.CRITICAL + 1)
    import warnings
    warnings.simplefilter("ignore")
