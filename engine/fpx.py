"""fpx - bit-precise (IEEE-754 binary64 + 64-bit two's complement) proxies for the duration codec.

symx models Python floats as exact reals; that is justified for the one float kernel the unchanged
code has - ``timedelta(seconds=float(text))`` - by lemma L-FP, and is *wrong* for other float
arithmetic (``int(fraction * 1_000_000)`` truncates 0.003944 s to 3943 µs).  fpx closes that hole for
the codec: the real ``encode``/``decode`` code of /repo is executed on the proxies below, which build
z3 FloatingPoint/BitVec terms, and the solver is asked for a microsecond count that does not survive.

  BInt        64-bit signed integer term              (+ - * // % by constants, comparisons)
  BFloat      binary64 term, round-to-nearest-even    (+ - * /, divmod(x, 1), floor/trunc/round/int)
  BTimedelta  a microsecond count (BInt); ``total_seconds()`` = correctly rounded us / 10**6
  FTimedelta  stands for the name ``timedelta`` in the codec modules: a model of CPython's
              ``delta_new``/``accum`` (modf, factor * fraction in double arithmetic, leftover rounding
              half-to-even) - validated against the real constructor by ``selftest()``

A branch on a symbolic value raises Unsupported (the codec kernels are straight-line).  Proving the
*absence* of a mismatch bit-precisely is out of reach (z3: unknown after 600 s for the unchanged
kernel), so the division of labour is: lemma shape -> L-FP; any other shape -> bit-precise query with a
time cap: sat = counterexample (replayed on the real code), unsat = holds, unknown = inconclusive.
"""
from __future__ import annotations

import datetime as _dt
import time

import z3

F64 = z3.Float64()
RNE, RTZ, RNA, RTN, RTP = z3.RNE(), z3.RTZ(), z3.RNA(), z3.RTN(), z3.RTP()
W = 64
BV = z3.BitVecSort(W)


class Unsupported(Exception):
    pass


def fpv(x):
    return z3.FPVal(float(x), F64)


def bvv(n):
    return z3.BitVecVal(int(n), W)


def _exact_float(n: int):
    if abs(n) >= 2**53:
        raise Unsupported(f"integer constant {n} is not exactly representable as a double")
    return fpv(n)


class BBool:
    __slots__ = ("t",)

    def __init__(self, t):
        self.t = t

    def __bool__(self):
        raise Unsupported("branch on a bit-precise symbolic value")


class BInt:
    __slots__ = ("t",)

    def __init__(self, t):
        self.t = t

    @staticmethod
    def _c(o):
        if isinstance(o, BInt):
            return o.t
        if isinstance(o, bool):
            return bvv(int(o))
        if isinstance(o, int):
            return bvv(o)
        return None

    def _bin(self, o, name, f, swap=False):
        if isinstance(o, (float, BFloat)):
            # int (op) float: the integer is converted to a double first (exact below 2**53)
            me = BFloat(z3.fpSignedToFP(RNE, self.t, F64))
            return getattr(me, ("__r%s__" if swap else "__%s__") % name)(o)
        c = self._c(o)
        if c is None:
            return NotImplemented
        return BInt(f(c, self.t) if swap else f(self.t, c))

    def __add__(self, o): return self._bin(o, "add", lambda a, b: a + b)
    def __radd__(self, o): return self._bin(o, "add", lambda a, b: a + b, True)
    def __sub__(self, o): return self._bin(o, "sub", lambda a, b: a - b)
    def __rsub__(self, o): return self._bin(o, "sub", lambda a, b: a - b, True)
    def __mul__(self, o): return self._bin(o, "mul", lambda a, b: a * b)
    def __rmul__(self, o): return self._bin(o, "mul", lambda a, b: a * b, True)
    def __neg__(self): return BInt(-self.t)
    def __pos__(self): return self

    def _divmod(self, o):
        if not isinstance(o, int) or isinstance(o, bool) or o <= 0:
            raise Unsupported("integer division by anything but a positive constant")
        d = bvv(o)
        q = self.t / d            # signed, truncating
        r = z3.SRem(self.t, d)    # sign follows the dividend
        adj = z3.And(r != 0, self.t < 0)
        return BInt(z3.If(adj, q - 1, q)), BInt(z3.If(adj, r + d, r))

    def __floordiv__(self, o): return self._divmod(o)[0]
    def __mod__(self, o): return self._divmod(o)[1]
    def __divmod__(self, o): return self._divmod(o)

    def __truediv__(self, o):
        # CPython's int / int is correctly rounded; exact conversions need |operands| < 2**53 (asserted by the harness bounds)
        if isinstance(o, int) and not isinstance(o, bool):
            return BFloat(z3.fpDiv(RNE, z3.fpSignedToFP(RNE, self.t, F64), _exact_float(o)))
        if isinstance(o, BInt):
            return BFloat(z3.fpDiv(RNE, z3.fpSignedToFP(RNE, self.t, F64), z3.fpSignedToFP(RNE, o.t, F64)))
        return BFloat(z3.fpSignedToFP(RNE, self.t, F64)) / o

    def __rtruediv__(self, o):
        return BFloat(_exact_float(o) if isinstance(o, int) else fpv(o)) / BFloat(z3.fpSignedToFP(RNE, self.t, F64))

    def _cmp(self, o, f):
        c = self._c(o)
        if c is None:
            return NotImplemented
        return BBool(f(self.t, c))

    def __eq__(self, o): return self._cmp(o, lambda a, b: a == b)
    def __ne__(self, o): return self._cmp(o, lambda a, b: a != b)
    def __lt__(self, o): return self._cmp(o, lambda a, b: a < b)
    def __le__(self, o): return self._cmp(o, lambda a, b: a <= b)
    def __gt__(self, o): return self._cmp(o, lambda a, b: a > b)
    def __ge__(self, o): return self._cmp(o, lambda a, b: a >= b)
    __hash__ = object.__hash__

    def __index__(self):
        raise Unsupported("a bit-precise symbolic integer used where a concrete int is required")

    __int__ = __index__

    def __float__(self):
        raise Unsupported("float() of a symbolic integer outside the patched modules")

    def __bool__(self):
        raise Unsupported("truth value of a bit-precise symbolic integer")

    def __repr__(self):
        return f"BInt({self.t})"


class BFloat:
    """binary64; `raw` marks a value that is exactly what float(<json number>) returned (no arithmetic yet)."""
    __slots__ = ("t", "raw")

    def __init__(self, t, raw=False):
        self.t = t
        self.raw = raw

    @staticmethod
    def _c(o):
        if isinstance(o, BFloat):
            return o.t
        if isinstance(o, bool):
            return fpv(int(o))
        if isinstance(o, int):
            return _exact_float(o)
        if isinstance(o, float):
            return fpv(o)
        if isinstance(o, BInt):
            return z3.fpSignedToFP(RNE, o.t, F64)
        return None

    def _bin(self, o, f, swap=False):
        c = self._c(o)
        if c is None:
            return NotImplemented
        return BFloat(f(RNE, c, self.t) if swap else f(RNE, self.t, c))

    def __add__(self, o): return self._bin(o, z3.fpAdd)
    def __radd__(self, o): return self._bin(o, z3.fpAdd, True)
    def __sub__(self, o): return self._bin(o, z3.fpSub)
    def __rsub__(self, o): return self._bin(o, z3.fpSub, True)
    def __mul__(self, o): return self._bin(o, z3.fpMul)
    def __rmul__(self, o): return self._bin(o, z3.fpMul, True)
    def __truediv__(self, o): return self._bin(o, z3.fpDiv)
    def __rtruediv__(self, o): return self._bin(o, z3.fpDiv, True)
    def __neg__(self): return BFloat(z3.fpNeg(self.t))
    def __pos__(self): return self
    def __abs__(self): return BFloat(z3.fpAbs(self.t))

    def __divmod__(self, o):
        # CPython float_divmod for the divisor 1: mod = fmod(x, 1) (exact), div = x - mod (exact); a negative
        # remainder is moved into [0, 1) and the quotient lowered by one; the quotient is then floored
        if not (isinstance(o, (int, float)) and not isinstance(o, bool) and o == 1):
            raise Unsupported("float divmod/floordiv/mod by anything but 1")
        ip = z3.fpRoundToIntegral(RTZ, self.t)
        mod = z3.fpSub(RNE, self.t, ip)
        neg = z3.fpLT(mod, fpv(0.0))
        mod2 = z3.If(neg, z3.fpAdd(RNE, mod, fpv(1.0)), mod)
        div2 = z3.If(neg, z3.fpSub(RNE, ip, fpv(1.0)), ip)
        return BFloat(div2), BFloat(mod2)

    def __floordiv__(self, o): return self.__divmod__(o)[0]
    def __mod__(self, o): return self.__divmod__(o)[1]

    def _to_int(self, rm):
        return BInt(z3.fpToSBV(RTZ, z3.fpRoundToIntegral(rm, self.t), BV))

    def __trunc__(self): return self._to_int(RTZ)
    def __floor__(self): return self._to_int(RTN)
    def __ceil__(self): return self._to_int(RTP)

    def __round__(self, ndigits=None):
        if ndigits is not None:
            raise Unsupported("round(x, ndigits) on a symbolic float")
        return self._to_int(RNE)

    def _cmp(self, o, f):
        c = self._c(o)
        if c is None:
            return NotImplemented
        return BBool(f(self.t, c))

    def __eq__(self, o): return self._cmp(o, z3.fpEQ)
    def __ne__(self, o): return self._cmp(o, z3.fpNEQ)
    def __lt__(self, o): return self._cmp(o, z3.fpLT)
    def __le__(self, o): return self._cmp(o, z3.fpLEQ)
    def __gt__(self, o): return self._cmp(o, z3.fpGT)
    def __ge__(self, o): return self._cmp(o, z3.fpGEQ)
    __hash__ = object.__hash__

    def __float__(self):
        raise Unsupported("float() of a symbolic float outside the patched modules")

    def __bool__(self):
        raise Unsupported("truth value of a bit-precise symbolic float")

    def __repr__(self):
        return f"BFloat({self.t})"


def fp_float(x=0.0):
    """Stands for the name `float` in the codec modules."""
    from engine.symx import Ctx
    if isinstance(x, BFloat):
        return x
    if isinstance(x, BInt):
        return BFloat(z3.fpSignedToFP(RNE, x.t, F64))
    c = Ctx.cur
    if isinstance(x, str) and c is not None and x in c.sentinels:
        return fp_float(c.sentinels[x])
    return float(x)


def fp_int(x=0, *a):
    """Stands for the name `int` in the codec modules."""
    if isinstance(x, BFloat):
        return x.__trunc__()
    if isinstance(x, BInt):
        return x
    return int(x, *a)


class BTimedelta:
    """A duration as a microsecond count; `lemma_shape` is set when it was built exactly as timedelta(seconds=<raw float>)."""
    __slots__ = ("us", "lemma_shape")

    def __init__(self, us: BInt, lemma_shape=False):
        self.us = us
        self.lemma_shape = lemma_shape

    def total_seconds(self):
        return self.us / 10**6

    @property
    def days(self): return self.us // (86400 * 10**6)

    @property
    def seconds(self): return (self.us % (86400 * 10**6)) // 10**6

    @property
    def microseconds(self): return self.us % 10**6

    def __truediv__(self, o):
        if isinstance(o, _dt.timedelta):
            return self.us / ((o.days * 86400 + o.seconds) * 10**6 + o.microseconds)
        return NotImplemented

    def __eq__(self, o):
        if isinstance(o, BTimedelta):
            return self.us == o.us
        if isinstance(o, _dt.timedelta):
            return self.us == ((o.days * 86400 + o.seconds) * 10**6 + o.microseconds)
        return NotImplemented

    __hash__ = object.__hash__

    def __deepcopy__(self, memo): return self
    def __copy__(self): return self

    def __repr__(self):
        return f"BTimedelta({self.us})"


class _FTDMeta(type):
    def __instancecheck__(cls, obj):
        return isinstance(obj, (_dt.timedelta, BTimedelta))

    def __subclasscheck__(cls, sub):
        return issubclass(sub, (_dt.timedelta, BTimedelta))


class FTimedelta(metaclass=_FTDMeta):
    """Stands for the name `timedelta`: CPython's delta_new()/accum() on bit-precise terms."""
    min = _dt.timedelta.min
    max = _dt.timedelta.max
    resolution = _dt.timedelta.resolution

    def __new__(cls, days=0, seconds=0, microseconds=0, milliseconds=0, minutes=0, hours=0, weeks=0):
        args = dict(days=days, seconds=seconds, microseconds=microseconds, milliseconds=milliseconds,
                    minutes=minutes, hours=hours, weeks=weeks)
        if not any(isinstance(v, (BInt, BFloat)) for v in args.values()):
            return _dt.timedelta(**args)
        return BTimedelta(BInt(delta_new(**args)),
                          lemma_shape=isinstance(seconds, BFloat) and seconds.raw and
                          all(k == "seconds" or (isinstance(v, int) and v == 0) for k, v in args.items()))


def delta_new(days=0, seconds=0, microseconds=0, milliseconds=0, minutes=0, hours=0, weeks=0):
    """Model of CPython 3.12 Modules/_datetimemodule.c delta_new(): returns the microsecond total as a BV term."""
    order = ((microseconds, 1), (milliseconds, 1000), (seconds, 10**6), (minutes, 60 * 10**6), (hours, 3600 * 10**6),
             (days, 86400 * 10**6), (weeks, 7 * 86400 * 10**6))
    x = bvv(0)
    leftover = fpv(0.0)
    any_float = False
    for v, factor in order:
        if isinstance(v, bool) or (isinstance(v, int)):
            x = x + bvv(int(v) * factor)
        elif isinstance(v, BInt):
            x = x + v.t * bvv(factor)
        elif isinstance(v, (float, BFloat)):
            any_float = True
            d = v.t if isinstance(v, BFloat) else fpv(v)
            ip = z3.fpRoundToIntegral(RTZ, d)               # modf
            frac = z3.fpSub(RNE, d, ip)                     # exact
            x = x + z3.fpToSBV(RTZ, ip, BV) * bvv(factor)
            dn = z3.fpMul(RNE, _exact_float(factor), frac)  # "may lose a little info"
            ip2 = z3.fpRoundToIntegral(RTZ, dn)
            x = x + z3.fpToSBV(RTZ, ip2, BV)
            leftover = z3.fpAdd(RNE, leftover, z3.fpSub(RNE, dn, ip2))
        else:
            raise Unsupported(f"timedelta component of type {type(v).__name__}")
    if any_float:
        w = z3.fpRoundToIntegral(RNA, leftover)             # C round(): halves away from zero
        tie = z3.fpEQ(z3.fpAbs(z3.fpSub(RNE, w, leftover)), fpv(0.5))
        odd = z3.If(z3.Extract(0, 0, x) == z3.BitVecVal(1, 1), fpv(1.0), fpv(0.0))
        w_tie = z3.fpSub(RNE, z3.fpMul(RNE, fpv(2.0), z3.fpRoundToIntegral(
            RNA, z3.fpMul(RNE, z3.fpAdd(RNE, leftover, odd), fpv(0.5)))), odd)
        x = x + z3.fpToSBV(RTZ, z3.If(tie, w_tie, w), BV)
    return x


# ---------------------------------------------------------------------------------------
# solving

def solve(constraints, timeout_s):
    s = z3.Solver()
    s.set("timeout", int(timeout_s * 1000))
    for c in constraints:
        s.add(c)
    t = time.perf_counter()
    r = s.check()
    dt = time.perf_counter() - t
    return str(r), (s.model() if str(r) == "sat" else None), dt


def concrete(term, env):
    """Evaluate a BV/FP term for concrete input values (dict name -> int) - used by the self-test."""
    subs = [(z3.BitVec(k, W), bvv(v)) for k, v in env.items()]
    return z3.simplify(z3.substitute(term, *subs))


def selftest():
    """The constructor model against the real CPython constructor, and total_seconds(), on boundary values."""
    bad = []
    n = z3.BitVec("n", W)
    sym_secs = BTimedelta(BInt(n)).total_seconds()
    model_back = delta_new(seconds=sym_secs)
    trunc_back = delta_new(seconds=fp_int(divmod(sym_secs, 1)[0]), microseconds=fp_int(divmod(sym_secs, 1)[1] * 1_000_000))
    for v in (0, 1, 996, 3944, 999_999, 1_000_000, 1_000_001, 2_300_000, 4_350_000, 90_100_000, 86_399_999_999, 86_400_000_000,
              10**12 + 7, 2**40 + 1, 2**50 - 1, 3_155_760_000_000_000, 3_155_759_999_999_999, 123_456_789_012_345, 142_936_511_610_880):
        td = _dt.timedelta(microseconds=v)
        secs = td.total_seconds()
        got = concrete(sym_secs.t, {"n": v})
        if not z3.is_true(z3.simplify(z3.fpEQ(got, fpv(secs)))):
            bad.append(("total_seconds", v, secs, str(got)))
        real_back = _dt.timedelta(seconds=secs)
        real_us = (real_back.days * 86400 + real_back.seconds) * 10**6 + real_back.microseconds
        if concrete(model_back, {"n": v}).as_signed_long() != real_us:
            bad.append(("delta_new(seconds=float)", v, real_us, concrete(model_back, {"n": v}).as_signed_long()))
        s_, f_ = divmod(secs, 1)
        real_tr = _dt.timedelta(seconds=int(s_), microseconds=int(f_ * 1_000_000))
        real_tr_us = (real_tr.days * 86400 + real_tr.seconds) * 10**6 + real_tr.microseconds
        if concrete(trunc_back, {"n": v}).as_signed_long() != real_tr_us:
            bad.append(("divmod/int/mul kernel", v, real_tr_us, concrete(trunc_back, {"n": v}).as_signed_long()))
    # a float component with a fraction in several units, and ties
    for kw in ({"seconds": 0.5e-6}, {"seconds": 1.5e-6}, {"seconds": 2.5e-6}, {"milliseconds": 0.0005}, {"seconds": 1.0000005},
               {"seconds": 0.1, "milliseconds": 0.25}, {"minutes": 0.1}, {"seconds": -1.5e-6}, {"seconds": -0.3}):
        real = _dt.timedelta(**kw)
        real_us = (real.days * 86400 + real.seconds) * 10**6 + real.microseconds
        got = z3.simplify(delta_new(**kw)).as_signed_long()
        if got != real_us:
            bad.append(("delta_new" + str(kw), real_us, got))
    return bad
