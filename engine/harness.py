"""Harness descriptor + the per-property driver (explore, replay, classify, evidence)."""
from __future__ import annotations

import fnmatch
import hashlib
import importlib
import json
import os
import sys
import time
from dataclasses import dataclass, field

from engine import env, symx

VERIF = os.path.dirname(os.path.dirname(os.path.abspath(__file__)))


@dataclass
class Harness:
    name: str
    scenario: object                     # callable(S)
    tiers: tuple = ("quick", "thorough")
    workers: int = 1
    budget_s: float = 600.0
    bounds: dict = field(default_factory=dict)      # stated bounds (what is inside the claim)
    outside: list = field(default_factory=list)     # what is outside the claim
    functions: list = field(default_factory=list)   # repid functions the harness means to execute
    covers: list = field(default_factory=list)      # coverage goals that must be reached
    stubs: list = field(default_factory=list)
    kind: str = "symx"                              # symx | custom
    custom: object = None                           # callable(tier) -> dict result for non-symx engines
    params: dict = field(default_factory=dict)


def borrowed(module, name, new_name, **changes):
    """A harness of another property registered under this one too (same scenario, own name): used where one scenario
    decides clauses of two properties.  The other module is imported on first use (module-level import order is free)."""
    import dataclasses
    mod = importlib.import_module("harness." + module)
    for h in mod.HARNESSES:
        if h.name == name:
            return dataclasses.replace(h, name=new_name, **changes)
    raise KeyError(f"{module} has no harness {name}")


def load(prop_id):
    mod = importlib.import_module("harness." + prop_id.lower())
    return mod


def _known_findings():
    p = os.path.join(VERIF, "known_findings.json")
    if not os.path.exists(p):
        return []
    return json.load(open(p)).get("findings", [])


def _match_known(prop, hname, v):
    for f in _known_findings():
        if f.get("status") != "open":
            continue  # "fixed" entries suppress nothing
        if f["property"] != prop or not fnmatch.fnmatchcase(hname, f["harness"]):
            continue
        labels = f["label"] if isinstance(f["label"], list) else [f["label"]]
        if not any(fnmatch.fnmatchcase(v["label"], pat) for pat in labels):
            continue
        want = f.get("tags", {})
        tags = v.get("tags", {})
        if all(tags.get(k) == val for k, val in want.items()):
            return f
    return None


def _group_key(hname, v):
    tags = v.get("tags") or {}
    return (hname, v["label"], json.dumps(tags, sort_keys=True, default=str))


def run_property(prop_id, tier, seed=0):
    t0 = time.time()
    from engine import selftest
    st = selftest.proxies() + selftest.fake_redis()
    if st:
        print("  harness self-test failed (proxy arithmetic / fake Redis replies): " + str(st[:3]), file=sys.stderr)
        return 3
    mod = load(prop_id)
    harnesses = [h for h in mod.HARNESSES if tier in h.tiers]
    ev = {
        "property_id": prop_id, "tier": tier, "seed": seed, "level": "other",
        "coverage": {}, "assumptions": [], "wall_s": 0.0, "violations": 0,
    }
    per_h = []
    status = 0            # 0 ok, 1 violation, 2 inconclusive, 3 harness error
    messages = []
    out_lines = []
    tot = dict(paths=0, nontrivial=0, queries=0, solver_s=0.0, infeasible=0)
    samples = []
    functions = set()
    all_exhaustive = True
    n_viol = 0
    for h in harnesses:
        ht0 = time.time()
        if h.kind == "custom":
            r = h.custom(tier)
        else:
            r = _run_symx(h, tier)
        r["name"] = h.name
        r["bounds"] = h.bounds
        r["outside_claim"] = h.outside
        r["stubs"] = h.stubs
        r["wall_s"] = round(time.time() - ht0, 3)
        # classify violations -----------------------------------------------------------
        groups = {}
        for v in r.pop("violations_raw", []):
            groups.setdefault(_group_key(h.name, v), []).append(v)
        reported = []
        for key, vs in groups.items():
            rep = None
            for cand in vs[:4]:
                rr = _replay(h, cand)
                if rr["reproduced"]:
                    rep = (cand, rr)
                    break
            if rep is None:
                status = max(status, 3)
                messages.append(f"{h.name}: counterexample for '{key[1]}' did not reproduce on the real code "
                                f"(encoding or stub is wrong) model={vs[0]['model']}")
                reported.append({"label": key[1], "tags": json.loads(key[2]), "count": len(vs),
                                 "reproduced": False, "model": vs[0]["model"]})
                continue
            cand, rr = rep
            kf = _match_known(prop_id, h.name, cand)
            entry = {"label": key[1], "tags": json.loads(key[2]), "count": len(vs), "reproduced": True,
                     "model": cand["model"], "info": cand.get("info"), "replay_failed": rr["failed"][:3]}
            if kf is not None:
                entry["known_finding"] = kf["id"]
                out_lines.append(f"KNOWN-FINDING: property={prop_id} {kf['id']}: {kf['what']}")
            else:
                path = _write_replay(prop_id, h, cand, rr)
                entry["replay"] = path
                out_lines.append(f"VIOLATION property={prop_id} replay={path}")
                messages.append(f"{h.name}: '{key[1]}' tags={key[2]} model={cand['model']}")
                status = max(status, 1)
                n_viol += 1
            reported.append(entry)
        r["violation_classes"] = reported
        if r.get("inconclusive"):
            status = max(status, 2)
            messages.append(f"{h.name}: inconclusive: {r['inconclusive'][:3]}")
        if r.get("errors"):
            status = max(status, 3)
            messages.append(f"{h.name}: harness error: {r['errors'][:3]}")
        missing = [c for c in h.covers if c not in r.get("covers", [])]
        if missing:
            status = max(status, 2)
            messages.append(f"{h.name}: coverage goals not reached (vacuity guard): {missing}")
        if r.get("checks", 1) == 0:
            status = max(status, 2)
            messages.append(f"{h.name}: no assertion reached (vacuous)")
        all_exhaustive = all_exhaustive and bool(r.get("exhaustive"))
        for k in ("paths", "nontrivial", "queries", "infeasible"):
            tot[k] += r.get(k, 0)
        tot["solver_s"] += r.get("solver_s", 0.0)
        samples.extend([{"harness": h.name, **s} for s in r.get("samples", [])[:2]])
        functions.update(r.get("functions_executed", []))
        per_h.append(r)
    ev["coverage"] = {
        "explanation": (
            "Bounded symbolic execution of the real repid code (imported from the tree under test, "
            "encoding regenerated on every run): inputs are z3/cvc5 terms, every branch on them is "
            "decided by the solver, each assertion is discharged per path for all values in the path's "
            "region; counterexample models are replayed concretely before being reported. "
            "See `harnesses` for functions executed, bounds, paths, queries and solver time."),
        "evaluations": tot["paths"],
        "distinct_nontrivial": tot["nontrivial"],
        "rule": ("evaluation = one explored execution path (distinct decision prefix, hence distinct by "
                 "construction) or one solver obligation of a non-path engine; non-trivial = its path "
                 "condition contains at least one solver-decided two-way fork / the obligation needed a solver query"),
        "samples": samples[:8] or [{"note": "no samples"}],
        "exhaustive": bool(all_exhaustive and status in (0, 1)),
        "queries": tot["queries"],
        "solver_s": round(tot["solver_s"], 3),
        "infeasible_paths": tot["infeasible"],
        "functions_executed": sorted(functions),
        "harnesses": per_h,
        "tree": env.repo_root(),
    }
    ev["assumptions"] = sorted(set(
        ["module globals shadowed: " + ", ".join(env.installed_names())] +
        [s for h in harnesses for s in h.stubs] +
        ["outside the claim: " + o for h in harnesses for o in h.outside] +
        getattr(mod, "ASSUMPTIONS", [])))
    ev["wall_s"] = round(time.time() - t0, 3)
    ev["violations"] = n_viol
    if n_viol:
        status = 1
    ev["status"] = {0: "holds-within-bounds", 1: "violation", 2: "inconclusive", 3: "harness-error"}[status]
    ev["messages"] = messages
    # evidence describes /repo; a run against another tree (--repo, used for seeded changes and canaries) keeps its record apart
    other = os.path.realpath(os.environ.get("VERIF_REPO", "/repo")) != os.path.realpath("/repo")
    evdir = os.path.join(VERIF, "evidence") if not other else os.path.join("/var/tmp/repid-verif-evidence-other", str(os.getpid()))
    os.makedirs(evdir, exist_ok=True)
    with open(os.path.join(evdir, f"{prop_id}.json"), "w") as f:
        json.dump(ev, f, indent=1, default=str)
    for line in dict.fromkeys(out_lines):
        print(line)
    for m in messages:
        print("  " + m, file=sys.stderr)
    print(f"{prop_id} [{tier}] {ev['status']}: {tot['paths']} paths ({tot['nontrivial']} with solver-decided forks), "
          f"{tot['queries']} queries, solver {tot['solver_s']:.1f}s, wall {ev['wall_s']:.1f}s, "
          f"harnesses: {', '.join(h.name for h in harnesses)}")
    return status


def _run_symx(h: Harness, tier):
    scen = h.scenario
    if h.params:
        base = scen
        params = dict(h.params.get(tier, h.params.get("quick", {})))
        scen = lambda S: base(S, **params)  # noqa: E731
    # the quick tier is the check run on every change: a harness that does not drain within five minutes there (normally they take
    # seconds) ends as inconclusive instead of keeping the check busy for its whole budget
    budget = min(h.budget_s, 300.0) if tier == "quick" else h.budget_s
    ex = symx.explore(scen, workers=h.workers, budget_s=budget)
    r = {
        "engine": "symx (replay-forking symbolic execution, z3 %s)" % symx.z3.get_version_string(),
        "paths": ex.paths, "nontrivial": ex.nontrivial, "infeasible": ex.infeasible,
        "queries": ex.queries, "solver_s": round(ex.solver_s, 3), "max_depth": ex.max_depth,
        "cpu_s": round(ex.cpu_s, 3), "concretized_values": ex.concretized,
        "exhaustive": ex.exhaustive, "remaining_prefixes": ex.remaining, "checks": ex.checks,
        "covers": sorted(ex.covers), "samples": ex.samples,
        "functions_executed": ex.functions, "functions_declared": h.functions,
        "inconclusive": ex.inconclusive[:5], "errors": ex.errors[:5],
        "violations_raw": ex.violations,
        "params": h.params.get(tier) if h.params else None,
    }
    if not ex.exhaustive and not ex.inconclusive and not ex.errors:
        r["inconclusive"] = [f"budget exhausted with {ex.remaining} unexplored prefixes"]
    missing_fn = [f for f in h.functions if not any(f in g for g in ex.functions)]
    r["functions_declared_not_seen_on_profiled_paths"] = missing_fn
    return r


def _scenario_for(h, tier_params=None):
    scen = h.scenario
    if h.params:
        base = scen
        params = dict(tier_params or {})
        scen = lambda S: base(S, **params)  # noqa: E731
    return scen


def _replay(h: Harness, v):
    if h.kind == "custom":
        return h.params["replay"](v)
    tier = os.environ.get("VERIF_TIER_EFFECTIVE", "quick")
    scen = _scenario_for(h, h.params.get(tier, h.params.get("quick")) if h.params else None)
    rr = symx.run_concrete(scen, v["model"])
    want = v["label"]
    got = [f["label"] for f in rr["failed"]]
    rr["reproduced"] = want in got or (want.startswith("unexpected-exception") and any(
        g.startswith("unexpected-exception") for g in got))
    return rr


def _write_replay(prop_id, h, v, rr):
    d = os.path.join(VERIF, "replays")
    os.makedirs(d, exist_ok=True)
    blob = {"property": prop_id, "harness": h.name, "label": v["label"], "model": v["model"],
            "tags": v.get("tags"), "info": v.get("info"), "tier": os.environ.get("VERIF_TIER_EFFECTIVE", "quick"),
            "concrete_failures": rr["failed"][:5]}
    hsh = hashlib.sha1(json.dumps(blob, sort_keys=True, default=str).encode()).hexdigest()[:10]
    path = os.path.join(d, f"{prop_id}-{h.name}-{hsh}.json")
    with open(path, "w") as f:
        json.dump(blob, f, indent=1, default=str)
    return path


def replay_file(path):
    blob = json.load(open(path))
    os.environ["VERIF_TIER_EFFECTIVE"] = blob.get("tier", "quick")
    mod = load(blob["property"])
    h = next(x for x in mod.HARNESSES if x.name == blob["harness"])
    rr = _replay(h, blob)
    print(json.dumps({"reproduced": rr["reproduced"], "failed": rr["failed"][:5], "notes": rr.get("notes")},
                     indent=1, default=str))
    if rr["reproduced"]:
        print(f"VIOLATION property={blob['property']} replay={path}")
        return 1
    return 0
