"""Stand-alone solver lemmas about the environment (not about repid code)."""
from __future__ import annotations

import time

import z3


def fp_roundtrip(half_ulp_x, half_ulp_y, n_max_us, timeout_ms=60000):
    """Error model of CPython's  timedelta(seconds=float(N / 1e6))  for an integer microsecond count N.

    x = fl(N / 1e6)            |x - N/1e6| <= half_ulp_x        (true division, correctly rounded)
    whole = floor(x)           exact (modf)
    y = fl((x - whole) * 1e6)  |y - (x - whole)*1e6| <= half_ulp_y
    r = round_half_even(y)     |r - y| <= 1/2
    result = whole*1e6 + r
    Returns (z3 verdict for 'result != N is satisfiable', model or None, seconds).
    """
    N, whole, r = z3.Ints("N whole r")
    x, y = z3.Reals("x y")
    s = z3.Solver()
    s.set("timeout", timeout_ms)
    M = z3.RealVal(10**6)
    s.add(N >= 0, N <= n_max_us)
    s.add(x - z3.ToReal(N) / M <= half_ulp_x, z3.ToReal(N) / M - x <= half_ulp_x)
    s.add(z3.ToReal(whole) <= x, x < z3.ToReal(whole) + 1)
    s.add(y - (x - z3.ToReal(whole)) * M <= half_ulp_y, (x - z3.ToReal(whole)) * M - y <= half_ulp_y)
    s.add(z3.ToReal(r) - y <= z3.RealVal("1/2"), y - z3.ToReal(r) <= z3.RealVal("1/2"))
    s.add(whole * 10**6 + r != N)
    t = time.perf_counter()
    res = s.check()
    dt = time.perf_counter() - t
    return str(res), (s.model() if str(res) == "sat" else None), dt


def l_fp():
    """L-FP: durations up to 100 julian years survive total_seconds() -> float -> timedelta(seconds=...)."""
    hundred_y_us = 36525 * 86400 * 10**6   # 100 julian years in µs (3.15576e15 < 2**52)
    out = {"name": "L-FP", "claims": []}
    # seconds < 2**32: ulp(x) <= 2**-21, fractional product < 2**20: ulp <= 2**-33
    # (the half-ulp below is only valid under that premise: beyond 2**33 s, about 272 years, a double no longer
    #  resolves microseconds and the round trip really fails, e.g. N = 17200017096835073 µs)
    assert hundred_y_us < 2**32 * 10**6, "L-FP premise: the duration bound must stay below 2**32 seconds"
    res, model, dt = fp_roundtrip(z3.RealVal(1) / 2**22, z3.RealVal(1) / 2**34, hundred_y_us)
    out["claims"].append({"what": "round trip is the identity for all N in [0, 100 julian years]", "query": "exists N: result != N",
                          "verdict": res, "expected": "unsat", "seconds": round(dt, 4)})
    ok = res == "unsat"
    # non-vacuity twin: in the binade [2**33, 2**34) s (half-ulp 2**-20) the same model admits a counterexample
    res2, model2, dt2 = fp_roundtrip(z3.RealVal(1) / 2**20, z3.RealVal(1) / 2**34, 2**34 * 10**6)
    out["claims"].append({"what": "twin: with the half-ulp of the binade [2^33, 2^34) s the error model admits a mismatch",
                          "verdict": res2, "expected": "sat", "seconds": round(dt2, 4),
                          "witness": str(model2)[:200] if model2 is not None else None})
    ok = ok and res2 == "sat"
    out["ok"] = ok
    return out


def l_fp_concrete_selftest():
    """Push boundary values through the real CPython constructor (validates the error model's reading)."""
    from datetime import timedelta
    bad = []
    for n in (0, 1, 999_999, 1_000_000, 1_000_001, 86_399_999_999, 86_400_000_000, 10**12 + 7, 2**40 + 1, 2**50 - 1,
              3_155_760_000_000_000, 3_155_759_999_999_999, 123_456_789_012_345):
        td = timedelta(microseconds=n)
        back = timedelta(seconds=float(td.total_seconds()))
        if back != td:
            bad.append(n)
    return bad
