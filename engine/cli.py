"""Command line: ./check <ID> [--tier T] [--repo DIR] | replay FILE | selftest"""
from __future__ import annotations

import argparse
import os
import sys

sys.setrecursionlimit(10000)
# abandoned coroutines of dropped virtual loops complain when they are finalised: not a result
sys.unraisablehook = lambda *a, **k: None


import faulthandler, signal as _signal
if os.environ.get("VERIF_DEBUG_DUMP"):
    faulthandler.register(_signal.SIGUSR1, all_threads=False)          # kill -USR1 <pid> prints where a (forked) worker is


def main(argv=None):
    ap = argparse.ArgumentParser(prog="check")
    ap.add_argument("what")
    ap.add_argument("arg", nargs="?")
    ap.add_argument("--tier", default=None)
    ap.add_argument("--repo", default=None)
    a = ap.parse_args(argv)
    if a.repo:
        os.environ["VERIF_REPO"] = os.path.abspath(a.repo)
    tier = a.tier or os.environ.get("VERIF_TIER") or "quick"
    if tier not in ("quick", "thorough"):
        tier = "quick"
    os.environ["VERIF_TIER_EFFECTIVE"] = tier
    try:
        seed = int(os.environ.get("VERIF_SEED", "0"))
    except ValueError:
        seed = 0
    from engine import env
    env.use_repo()
    env.install()
    env.silence_asyncio()
    from engine import harness
    if a.what == "replay":
        return harness.replay_file(a.arg)
    if a.what == "selftest":
        from engine import selftest
        return selftest.main()
    return harness.run_property(a.what.upper(), tier, seed)


if __name__ == "__main__":
    sys.exit(main())
