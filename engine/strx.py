"""strx - source-level symbolic evaluation of small string kernels, decided by cvc5.

The functions under test are read from the tree on every run (inspect.getsource -> ast)
and interpreted over SMT-LIB string terms: f-strings become str.++, split() becomes a
chain of first-occurrence steps (each a solver-decided fork), find/startswith/==/len map
to str.indexof/str.prefixof/=/str.len, int() of a rendered number to str.to_int.
Python regexes (the validators' own patterns) are translated to RegLan from re._parser.
Branches on symbolic conditions fork exactly like symx (decision prefixes, re-execution).
Source that leaves the supported subset raises Unsupported -> the check is inconclusive.
"""
from __future__ import annotations

import ast
import inspect
import re._parser as sre
import textwrap
import time
import types

import cvc5


class Unsupported(Exception):
    pass


class Infeasible(Exception):
    pass


# ---------------------------------------------------------------------------------------
# SMT text helpers


def lit(s: str) -> str:
    return '"' + "".join(c if 32 <= ord(c) < 127 and c not in '"\\' else "\\u{%x}" % ord(c) for c in s) + '"'


def re_to_smt(pattern: str) -> str:
    """Python regex (the subset the validators use) -> SMT-LIB RegLan."""

    def conv(items):
        parts = [one(op, av) for op, av in items]
        if not parts:
            return '(str.to_re "")'
        return parts[0] if len(parts) == 1 else "(re.++ " + " ".join(parts) + ")"

    def one(op, av):
        op = str(op)
        if op == "LITERAL":
            return "(str.to_re %s)" % lit(chr(av))
        if op == "NOT_LITERAL":
            return "(re.diff re.allchar (str.to_re %s))" % lit(chr(av))
        if op == "ANY":
            return '(re.diff re.allchar (str.to_re "\\u{a}"))'
        if op == "IN":
            neg = False
            alts = []
            for o, a in av:
                o = str(o)
                if o == "NEGATE":
                    neg = True
                elif o == "LITERAL":
                    alts.append("(str.to_re %s)" % lit(chr(a)))
                elif o == "RANGE":
                    alts.append("(re.range %s %s)" % (lit(chr(a[0])), lit(chr(a[1]))))
                elif o == "CATEGORY" and str(a) == "CATEGORY_DIGIT":
                    alts.append('(re.range "0" "9")')
                elif o == "CATEGORY" and str(a) == "CATEGORY_WORD":
                    alts += ['(re.range "0" "9")', '(re.range "a" "z")', '(re.range "A" "Z")', '(str.to_re "_")']
                else:
                    raise Unsupported(f"regex class item {o} {a}")
            u = alts[0] if len(alts) == 1 else "(re.union " + " ".join(alts) + ")"
            return "(re.diff re.allchar %s)" % u if neg else u
        if op in ("MAX_REPEAT", "MIN_REPEAT"):
            lo, hi, sub = av
            inner = conv(list(sub))
            if hi == sre.MAXREPEAT:
                if lo == 0:
                    return "(re.* %s)" % inner
                if lo == 1:
                    return "(re.+ %s)" % inner
                return "(re.++ ((_ re.loop %d %d) %s) (re.* %s))" % (lo, lo, inner, inner)
            return "((_ re.loop %d %d) %s)" % (lo, hi, inner)
        if op == "SUBPATTERN":
            return conv(list(av[3]))
        if op == "BRANCH":
            return "(re.union " + " ".join(conv(list(b)) for b in av[1]) + ")"
        raise Unsupported(f"regex construct {op}")

    return conv(list(sre.parse(pattern)))


# ---------------------------------------------------------------------------------------
# symbolic values


class SStr:
    """A symbolic string: an SMT term, plus (when it was built by concatenation) its segment list
    of literals (str) and atomic terms, which lets split() work segment-wise."""
    __slots__ = ("t", "segs")

    def __init__(self, t, segs=None):
        self.t = t
        self.segs = segs if segs is not None else [("atom", t)]

    def __repr__(self):
        return f"SStr({self.t})"


class SBytes(SStr):
    pass


class SInt:
    __slots__ = ("t",)

    def __init__(self, t):
        self.t = t

    def __repr__(self):
        return f"SInt({self.t})"


class SBool:
    __slots__ = ("t",)

    def __init__(self, t):
        self.t = t


def sterm(x):
    if isinstance(x, SStr):
        return x.t
    if isinstance(x, str):
        return lit(x)
    if isinstance(x, bytes):
        return lit(x.decode("latin-1"))
    raise Unsupported(f"not a string: {x!r}")


def iterm(x):
    if isinstance(x, SInt):
        return x.t
    if isinstance(x, bool):
        return "1" if x else "0"
    if isinstance(x, int):
        return str(x) if x >= 0 else f"(- {-x})"
    raise Unsupported(f"not an int: {x!r}")


def is_sym(x):
    return isinstance(x, (SStr, SInt, SBool))


DIGITS = '(re.union (str.to_re "0") (re.++ (re.range "1" "9") (re.* (re.range "0" "9"))))'


# ---------------------------------------------------------------------------------------
# solver + path exploration


class Solver:
    def __init__(self, tlimit_ms=90000):
        self.queries = 0
        self.time = 0.0
        self.tlimit = tlimit_ms
        self.unknowns = 0

    def check(self, decls, asserts, want_model=()):
        t = time.perf_counter()
        self.queries += 1
        text = "(set-logic ALL)\n" + "\n".join(decls) + "\n" + "\n".join(f"(assert {a})" for a in asserts) + "\n(check-sat)\n"
        if want_model:
            text += "(get-value (" + " ".join(want_model) + "))\n"
        slv = cvc5.Solver()
        slv.setOption("strings-exp", "true")
        slv.setOption("produce-models", "true")
        slv.setOption("tlimit-per", str(self.tlimit))
        sm = cvc5.SymbolManager(slv)
        p = cvc5.InputParser(slv, sm)
        p.setStringInput(cvc5.InputLanguage.SMT_LIB_2_6, text, "q")
        outs = []
        while True:
            cmd = p.nextCommand()
            if cmd.isNull():
                break
            r = cmd.invoke(slv, sm).strip()
            if r:
                outs.append(r)
        self.time += time.perf_counter() - t
        res = outs[0] if outs else "unknown"
        if res not in ("sat", "unsat"):
            self.unknowns += 1
        model = outs[1] if len(outs) > 1 and res == "sat" else None
        return res, model


class Path:
    """One symbolic path of a strx scenario."""

    def __init__(self, solver, prefix):
        self.solver = solver
        self.prefix = list(prefix)
        self.decisions = []
        self.decls = []
        self.pc = []
        self.names = set()
        self.new_prefixes = []
        self.vars = {}           # user-visible inputs: name -> sort
        self.counter = 0
        self.checks = 0
        self.violations = []
        self.covers = set()
        self.notes = {}

    def declare(self, name, sort="String"):
        if name not in self.names:
            self.names.add(name)
            self.decls.append(f"(declare-const {name} {sort})")
        return name

    def fresh(self, base, sort="String"):
        self.counter += 1
        return self.declare(f"{base}_{self.counter}", sort)

    def input_str(self, name, regex=None, maxlen=None):
        self.declare(name)
        self.vars[name] = "String"
        if regex is not None:
            self.pc.append(f"(str.in_re {name} {regex})")
        if maxlen is not None:
            self.pc.append(f"(<= (str.len {name}) {maxlen})")
        return SStr(name)

    def input_int(self, name, lo=None, hi=None):
        self.declare(name, "Int")
        self.vars[name] = "Int"
        if lo is not None:
            self.pc.append(f"(>= {name} {iterm(lo)})")
        if hi is not None:
            self.pc.append(f"(<= {name} {iterm(hi)})")
        return SInt(name)

    def assume(self, cond):
        self.pc.append(cond.t if isinstance(cond, SBool) else cond)

    def decide(self, cond) -> bool:
        """Fork on a boolean SMT term."""
        if isinstance(cond, bool):
            return cond
        t = cond.t if isinstance(cond, SBool) else cond
        i = len(self.decisions)
        if i < len(self.prefix):
            v = self.prefix[i]
        else:
            rt, _ = self.solver.check(self.decls, self.pc + [t])
            rf, _ = self.solver.check(self.decls, self.pc + [f"(not {t})"])
            if "unknown" in (rt, rf) or rt not in ("sat", "unsat") or rf not in ("sat", "unsat"):
                raise Unsupported(f"solver returned unknown at a branch: {t[:120]}")
            if rt == "sat" and rf == "sat":
                self.new_prefixes.append(self.decisions + [False])
                v = True
            elif rt == "sat":
                v = True
            elif rf == "sat":
                v = False
            else:
                raise Infeasible()
        self.decisions.append(v)
        self.pc.append(t if v else f"(not {t})")
        return v

    def check(self, label, cond, info=None):
        """Assertion over all values in this path's region."""
        self.checks += 1
        if isinstance(cond, bool):
            if cond:
                return True
            r, model = self.solver.check(self.decls, self.pc, want_model=list(self.vars))
            if r == "unsat":
                return True      # path region empty
            self.violations.append({"label": label, "model": model, "info": info, "decisions": list(self.decisions)})
            return False
        t = cond.t if isinstance(cond, SBool) else cond
        r, model = self.solver.check(self.decls, self.pc + [f"(not {t})"], want_model=list(self.vars))
        if r == "unsat":
            return True
        if r == "sat":
            self.violations.append({"label": label, "model": model, "info": info, "decisions": list(self.decisions)})
            return False
        raise Unsupported(f"solver returned unknown on assertion {label}")

    def cover(self, label):
        self.covers.add(label)


def explore(scenario, tlimit_ms=90000, max_paths=5000):
    """scenario(P: Path) -> None.  Returns a result dict."""
    solver = Solver(tlimit_ms)
    todo = [[]]
    res = {"paths": 0, "nontrivial": 0, "violations": [], "covers": set(), "inconclusive": [], "errors": [],
           "samples": [], "checks": 0, "infeasible": 0}
    t0 = time.perf_counter()
    while todo and res["paths"] < max_paths:
        prefix = todo.pop()
        P = Path(solver, prefix)
        try:
            scenario(P)
        except Infeasible:
            res["infeasible"] += 1
            continue
        except Unsupported as e:
            res["inconclusive"].append(f"encoding failed: {e}")
            todo.extend(P.new_prefixes)
            continue
        res["paths"] += 1
        if P.decisions:
            res["nontrivial"] += 1
        res["checks"] += P.checks
        res["covers"] |= P.covers
        for v in P.violations:
            res["violations"].append(v)
        if len(res["samples"]) < 4:
            res["samples"].append({"decisions": P.decisions, "path_condition_tail": [c[:160] for c in P.pc[-4:]], "notes": P.notes})
        todo.extend(P.new_prefixes)
    res["queries"] = solver.queries
    res["solver_s"] = round(solver.time, 3)
    res["exhaustive"] = not todo and not res["inconclusive"]
    res["wall_s"] = round(time.perf_counter() - t0, 3)
    res["covers"] = sorted(res["covers"])
    return res


def parse_model(text):
    """'((q "ab") (p 3))' -> dict"""
    out = {}
    if not text:
        return out
    import re
    for m in re.finditer(r'\((\w+) ("(?:[^"]|"")*"|\(- \d+\)|-?\d+)\)', text):
        k, v = m.group(1), m.group(2)
        if v.startswith('"'):
            s = v[1:-1].replace('""', '"')
            s = re.sub(r"\\u\{([0-9a-fA-F]+)\}", lambda mm: chr(int(mm.group(1), 16)), s)
            out[k] = s
        elif v.startswith("(-"):
            out[k] = -int(v[3:-1])
        else:
            out[k] = int(v)
    return out


# ---------------------------------------------------------------------------------------
# the AST interpreter


class Return(Exception):
    def __init__(self, value):
        self.value = value


class Interp:
    SPLIT_BOUND = 8
    ATOM_CUTS = 3      # separators looked for inside one symbolic component before giving up on the path

    def __init__(self, path: Path, stubs=None):
        self.P = path
        self.stubs = stubs or {}
        self.functions = []

    # -- entry --------------------------------------------------------------------------
    def call(self, fn, *args, **kwargs):
        if isinstance(fn, types.MethodType):
            args = (fn.__self__,) + args
            fn = fn.__func__
        if isinstance(fn, (classmethod, staticmethod)):
            fn = fn.__func__
        name = getattr(fn, "__qualname__", str(fn))
        if name in self.stubs:
            return self.stubs[name](self, *args, **kwargs)
        try:
            src = textwrap.dedent(inspect.getsource(fn))
        except (OSError, TypeError) as e:
            raise Unsupported(f"no source for {name}: {e}")
        fdef = ast.parse(src).body[0]
        if not isinstance(fdef, (ast.FunctionDef,)):
            raise Unsupported(f"{name}: not a plain function")
        self.functions.append(f"{fn.__module__}.{name}")
        sig = inspect.signature(fn)
        ba = sig.bind(*args, **kwargs)
        ba.apply_defaults()
        env = dict(ba.arguments)
        env["__globals__"] = fn.__globals__
        env["__closure__"] = {}
        if fn.__closure__:
            env["__closure__"] = {n: c.cell_contents for n, c in zip(fn.__code__.co_freevars, fn.__closure__)}
        try:
            self.block(fdef.body, env)
        except Return as r:
            return r.value
        return None

    def block(self, stmts, env):
        for st in stmts:
            self.stmt(st, env)

    # -- statements ---------------------------------------------------------------------
    def stmt(self, st, env):
        if isinstance(st, ast.Expr):
            self.ev(st.value, env)
        elif isinstance(st, ast.Return):
            raise Return(self.ev(st.value, env) if st.value is not None else None)
        elif isinstance(st, ast.Assign):
            v = self.ev(st.value, env)
            for tgt in st.targets:
                self.assign(tgt, v, env)
        elif isinstance(st, ast.AnnAssign):
            if st.value is not None:
                self.assign(st.target, self.ev(st.value, env), env)
        elif isinstance(st, ast.AugAssign):
            cur = self.ev(ast.Name(id=st.target.id, ctx=ast.Load()), env) if isinstance(st.target, ast.Name) else self.ev(st.target, env)
            v = self.binop(st.op, cur, self.ev(st.value, env))
            self.assign(st.target, v, env)
        elif isinstance(st, ast.If):
            c = self.truth(self.ev(st.test, env))
            self.block(st.body if c else st.orelse, env)
        elif isinstance(st, ast.Pass):
            pass
        elif isinstance(st, ast.Raise):
            exc = self.ev(st.exc, env) if st.exc is not None else RuntimeError("re-raise")
            raise exc if isinstance(exc, BaseException) else exc()
        else:
            raise Unsupported(f"statement {type(st).__name__}")

    def assign(self, tgt, v, env):
        if isinstance(tgt, ast.Name):
            env[tgt.id] = v
        elif isinstance(tgt, (ast.Tuple, ast.List)):
            if not isinstance(v, (list, tuple)):
                raise Unsupported("unpacking a non-sequence")
            if len(v) != len(tgt.elts):
                raise ValueError(f"not enough/too many values to unpack (expected {len(tgt.elts)}, got {len(v)})")
            for t, x in zip(tgt.elts, v):
                self.assign(t, x, env)
        elif isinstance(tgt, ast.Attribute):
            obj = self.ev(tgt.value, env)
            setattr(obj, tgt.attr, v)
        else:
            raise Unsupported(f"assignment target {type(tgt).__name__}")

    # -- expressions --------------------------------------------------------------------
    def truth(self, v):
        if isinstance(v, SBool):
            return self.P.decide(v)
        if isinstance(v, SStr):
            return self.P.decide(f"(> (str.len {v.t}) 0)")
        if isinstance(v, SInt):
            return self.P.decide(f"(not (= {v.t} 0))")
        return bool(v)

    def truth_term(self, v):
        """boolean value -> SMT term (no forking)."""
        if isinstance(v, SBool):
            return v.t
        if isinstance(v, bool):
            return "true" if v else "false"
        raise Unsupported("not a boolean")

    def ev(self, e, env):
        if isinstance(e, ast.Constant):
            return e.value
        if isinstance(e, ast.Name):
            if e.id in env:
                return env[e.id]
            if e.id in env["__closure__"]:
                return env["__closure__"][e.id]
            g = env["__globals__"]
            if e.id in g:
                return g[e.id]
            import builtins
            if hasattr(builtins, e.id):
                return getattr(builtins, e.id)
            raise NameError(e.id)
        if isinstance(e, ast.Attribute):
            obj = self.ev(e.value, env)
            if is_sym(obj):
                return ("method", obj, e.attr)
            return getattr(obj, e.attr)
        if isinstance(e, ast.JoinedStr):
            parts = []
            for v in e.values:
                if isinstance(v, ast.Constant):
                    parts.append(v.value)
                else:
                    if v.format_spec is not None or v.conversion not in (-1, 115):
                        raise Unsupported("format spec / conversion in f-string")
                    parts.append(self.to_str(self.ev(v.value, env)))
            return self.concat(parts)
        if isinstance(e, ast.IfExp):
            return self.ev(e.body if self.truth(self.ev(e.test, env)) else e.orelse, env)
        if isinstance(e, ast.Tuple):
            return tuple(self.ev(x, env) for x in e.elts)
        if isinstance(e, ast.List):
            return [self.ev(x, env) for x in e.elts]
        if isinstance(e, ast.Subscript):
            base = self.ev(e.value, env)
            if isinstance(e.slice, ast.Slice):
                lo = self.ev(e.slice.lower, env) if e.slice.lower is not None else None
                hi = self.ev(e.slice.upper, env) if e.slice.upper is not None else None
                if e.slice.step is not None:
                    raise Unsupported("slice step")
                if isinstance(base, SStr):
                    return self.substr(base, lo, hi)
                return base[lo:hi]
            idx = self.ev(e.slice, env)
            if is_sym(base) or is_sym(idx):
                raise Unsupported("symbolic subscript")
            return base[idx]
        if isinstance(e, ast.UnaryOp):
            v = self.ev(e.operand, env)
            if isinstance(e.op, ast.Not):
                return not self.truth(v)
            if isinstance(e.op, ast.USub):
                return SInt(f"(- {v.t})") if isinstance(v, SInt) else -v
            raise Unsupported("unary op")
        if isinstance(e, ast.BoolOp):
            if isinstance(e.op, ast.And):
                v = True
                for x in e.values:
                    v = self.ev(x, env)
                    if not self.truth(v):
                        return False if is_sym(v) else v
                return True if is_sym(v) else v
            v = False
            for x in e.values:
                v = self.ev(x, env)
                if self.truth(v):
                    return True if is_sym(v) else v
            return False if is_sym(v) else v
        if isinstance(e, ast.Compare):
            left = self.ev(e.left, env)
            result = True
            for op, right_e in zip(e.ops, e.comparators):
                right = self.ev(right_e, env)
                r = self.compare(op, left, right)
                if isinstance(r, SBool):
                    if len(e.ops) == 1:
                        return r
                    r = self.P.decide(r)
                if not r:
                    return False
                left = right
            return result
        if isinstance(e, ast.BinOp):
            return self.binop(e.op, self.ev(e.left, env), self.ev(e.right, env))
        if isinstance(e, ast.Call):
            f = self.ev(e.func, env)
            args = []
            for a in e.args:
                if isinstance(a, ast.Starred):
                    args.extend(self.ev(a.value, env))
                else:
                    args.append(self.ev(a, env))
            kw = {k.arg: self.ev(k.value, env) for k in e.keywords}
            return self.apply(f, args, kw, env)
        if isinstance(e, ast.NamedExpr):
            v = self.ev(e.value, env)
            env[e.target.id] = v
            return v
        raise Unsupported(f"expression {type(e).__name__}")

    # -- operations ---------------------------------------------------------------------
    def to_str(self, x):
        if isinstance(x, SStr):
            return x
        if isinstance(x, SInt):
            memo = self.P.notes.setdefault("_render", {})
            if x.t in memo:
                return SStr(memo[x.t])
            r = self.P.fresh("num")
            memo[x.t] = r
            self.P.pc.append(f"(str.in_re {r} {DIGITS})")
            self.P.pc.append(f"(= (str.to_int {r}) {x.t})")
            self.P.pc.append(f"(>= {x.t} 0)")
            return SStr(r)
        return str(x)

    def concat(self, parts):
        if not any(isinstance(p, SStr) for p in parts):
            return "".join(parts)
        ts = [sterm(p) for p in parts if not (isinstance(p, str) and p == "")]
        cls = SBytes if any(isinstance(p, SBytes) for p in parts) else SStr
        segs = []
        for p in parts:
            if isinstance(p, SStr):
                segs.extend(p.segs)
            elif isinstance(p, bytes):
                segs.append(("lit", p.decode("latin-1")))
            elif p != "":
                segs.append(("lit", p))
        merged = []
        for kind, v in segs:
            if kind == "lit" and merged and merged[-1][0] == "lit":
                merged[-1] = ("lit", merged[-1][1] + v)
            else:
                merged.append((kind, v))
        return cls(ts[0] if len(ts) == 1 else "(str.++ " + " ".join(ts) + ")", merged)

    def substr(self, s, lo, hi):
        lo_t = iterm(lo) if lo is not None else "0"
        if (isinstance(lo, int) and lo < 0) or (isinstance(hi, int) and hi < 0):
            raise Unsupported("negative slice bound")
        if hi is None:
            return type(s)(f"(str.substr {s.t} {lo_t} (str.len {s.t}))")
        return type(s)(f"(str.substr {s.t} {lo_t} (- {iterm(hi)} {lo_t}))")

    def compare(self, op, a, b):
        if not is_sym(a) and not is_sym(b):
            import operator
            ops = {ast.Eq: operator.eq, ast.NotEq: operator.ne, ast.Lt: operator.lt, ast.LtE: operator.le,
                   ast.Gt: operator.gt, ast.GtE: operator.ge, ast.Is: operator.is_, ast.IsNot: operator.is_not,
                   ast.In: lambda x, y: x in y, ast.NotIn: lambda x, y: x not in y}
            return ops[type(op)](a, b)
        if isinstance(op, (ast.Is, ast.IsNot)):
            return isinstance(op, ast.IsNot)   # a symbolic value is never None / a singleton
        if isinstance(a, SStr) or isinstance(b, SStr):
            if isinstance(op, (ast.In, ast.NotIn)):
                t = f"(str.contains {sterm(b)} {sterm(a)})"
                return SBool(t if isinstance(op, ast.In) else f"(not {t})")
            if not isinstance(a, (SStr, str, bytes)) or not isinstance(b, (SStr, str, bytes)):
                return isinstance(op, ast.NotEq)
            t = f"(= {sterm(a)} {sterm(b)})"
            if isinstance(op, ast.Eq):
                return SBool(t)
            if isinstance(op, ast.NotEq):
                return SBool(f"(not {t})")
            raise Unsupported("string ordering")
        sym = {ast.Eq: "=", ast.Lt: "<", ast.LtE: "<=", ast.Gt: ">", ast.GtE: ">="}
        if isinstance(op, ast.NotEq):
            return SBool(f"(not (= {iterm(a)} {iterm(b)}))")
        if type(op) in sym:
            return SBool(f"({sym[type(op)]} {iterm(a)} {iterm(b)})")
        raise Unsupported("comparison")

    def binop(self, op, a, b):
        if not is_sym(a) and not is_sym(b):
            import operator
            ops = {ast.Add: operator.add, ast.Sub: operator.sub, ast.Mult: operator.mul, ast.Mod: operator.mod,
                   ast.FloorDiv: operator.floordiv}
            if type(op) not in ops:
                raise Unsupported("binary op")
            return ops[type(op)](a, b)
        if isinstance(op, ast.Add) and (isinstance(a, SStr) or isinstance(b, SStr)):
            return self.concat([a, b])
        if isinstance(a, (SInt, int)) and isinstance(b, (SInt, int)):
            sym = {ast.Add: "+", ast.Sub: "-", ast.Mult: "*"}
            if type(op) in sym:
                return SInt(f"({sym[type(op)]} {iterm(a)} {iterm(b)})")
        raise Unsupported("symbolic binary op")

    def apply(self, f, args, kw, env):
        if isinstance(f, tuple) and f and f[0] == "method":
            _, obj, name = f
            m = getattr(self, "m_" + name, None)
            if m is None:
                raise Unsupported(f"method .{name}() on a symbolic {type(obj).__name__}")
            return m(obj, *args, **kw)
        if f is len and args and isinstance(args[0], SStr):
            return SInt(f"(str.len {args[0].t})")
        if getattr(f, "__name__", "") == "sym_int":
            f = int           # symx shadows `int` in some repid modules; same meaning here
        if f is int and args and isinstance(args[0], SStr):
            return self.to_int(args[0])
        if f is int and args and isinstance(args[0], SInt):
            return args[0]
        if f is str and args and is_sym(args[0]):
            return self.to_str(args[0])
        if f is isinstance and is_sym(args[0]):
            want = args[1] if isinstance(args[1], tuple) else (args[1],)
            py = bytes if isinstance(args[0], SBytes) else str if isinstance(args[0], SStr) else int
            return any(issubclass(py, w) for w in want)
        qual = getattr(f, "__qualname__", None)
        if qual in self.stubs:
            return self.stubs[qual](self, *args, **kw)
        any_sym = any(is_sym(a) for a in args) or any(is_sym(v) for v in kw.values())
        if isinstance(f, (types.FunctionType, types.MethodType)):
            fn = f.__func__ if isinstance(f, types.MethodType) else f
            mod = getattr(fn, "__module__", "") or ""
            if mod.startswith("repid") and (any_sym or mod == self.home_module(env)):
                return self.call(f, *args, **kw)
        if any_sym:
            # str methods given symbolic arguments on a concrete receiver, e.g. "abc".startswith(sym)
            if isinstance(f, types.BuiltinMethodType) and isinstance(f.__self__, str):
                m = getattr(self, "m_" + f.__name__, None)
                if m is not None:
                    return m(f.__self__, *args, **kw)
            raise Unsupported(f"call of {getattr(f, '__name__', f)} with symbolic arguments")
        return f(*args, **kw)

    def home_module(self, env):
        return env["__globals__"].get("__name__", "")

    def to_int(self, s):
        ok = self.P.decide(f"(str.in_re {s.t} (re.+ (re.range \"0\" \"9\")))")
        if not ok:
            raise ValueError("invalid literal for int()")
        return SInt(f"(str.to_int {s.t})")

    # -- string methods -----------------------------------------------------------------
    def m_split(self, s, sep=None, maxsplit=-1):
        if sep is None or not isinstance(sep, (str, bytes)) or isinstance(maxsplit, SInt):
            raise Unsupported("split() without a concrete separator")
        if isinstance(sep, bytes):
            sep = sep.decode("latin-1")
        if isinstance(s, (str, bytes)):
            return s.split(sep, maxsplit)
        cls = type(s)
        if len(sep) == 1 and len(s.segs) > 1:
            # segment-wise split: literals are split concretely; an atom that may contain the separator is cut,
            # occurrence by occurrence, into fresh atoms that do not contain it (no indexof over the whole string)
            clean = True
            segs = []
            for kind, v in s.segs:
                budget = self.ATOM_CUTS
                if kind != "atom":
                    segs.append((kind, v))
                    continue
                cur = v
                while self.P.decide(f"(str.contains {cur} {lit(sep)})"):
                    if budget == 0:
                        raise Unsupported(f"more than {self.ATOM_CUTS} separators inside one symbolic component (bound)")
                    budget -= 1
                    head = self.P.fresh("part")
                    rest = self.P.fresh("rest")
                    self.P.pc.append(f"(= {cur} (str.++ {head} {lit(sep)} {rest}))")
                    self.P.pc.append(f"(not (str.contains {head} {lit(sep)}))")
                    segs.append(("atom", head))
                    segs.append(("lit", sep))
                    cur = rest
                segs.append(("atom", cur))
            s = cls(s.t, segs)
            if clean:
                pieces = [[]]
                for kind, v in s.segs:
                    if kind == "lit":
                        bits = v.split(sep)
                        pieces[-1].append(bits[0])
                        for b in bits[1:]:
                            pieces.append([b])
                    else:
                        pieces[-1].append(cls(v))
                if maxsplit >= 0 and len(pieces) > maxsplit + 1:
                    head = pieces[:maxsplit]
                    tail = pieces[maxsplit:]
                    joined = []
                    for n_, pc_ in enumerate(tail):
                        if n_:
                            joined.append(sep)
                        joined.extend(pc_)
                    pieces = head + [joined]
                out = []
                for pc_ in pieces:
                    r = self.concat(pc_) if pc_ else ""
                    out.append(r)
                return out
        parts = []
        cur = s.t
        n = 0
        limit = maxsplit if maxsplit >= 0 else self.SPLIT_BOUND
        while n < limit:
            if not self.P.decide(f"(str.contains {cur} {lit(sep)})"):
                break
            head = self.P.fresh("part")
            rest = self.P.fresh("rest")
            self.P.pc.append(f"(= {cur} (str.++ {head} {lit(sep)} {rest}))")
            self.P.pc.append(f"(= (str.indexof {cur} {lit(sep)} 0) (str.len {head}))")
            parts.append(cls(head))
            cur = rest
            n += 1
        else:
            if maxsplit < 0 and self.P.decide(f"(str.contains {cur} {lit(sep)})"):
                raise Unsupported(f"split() produced more than {self.SPLIT_BOUND} parts (bound)")
        parts.append(cls(cur))
        return parts

    def m_find(self, s, sub, start=None, end=None):
        st = sterm(s)
        if start is not None or end is not None:
            lo = iterm(start) if start is not None else "0"
            if (isinstance(start, int) and start < 0) or (isinstance(end, int) and end < 0):
                raise Unsupported("negative find bounds")
            hi = iterm(end) if end is not None else f"(str.len {st})"
            # Python: search in s[lo:hi], result is an index into s (or -1)
            window = f"(str.substr {st} {lo} (- {hi} {lo}))"
            idx = f"(str.indexof {window} {sterm(sub)} 0)"
            return SInt(f"(ite (= {idx} (- 1)) (- 1) (+ {idx} {lo}))")
        return SInt(f"(str.indexof {st} {sterm(sub)} 0)")

    def m_startswith(self, s, prefix, *a):
        if a:
            raise Unsupported("startswith with bounds")
        if isinstance(prefix, tuple):
            ts = [f"(str.prefixof {sterm(p)} {sterm(s)})" for p in prefix]
            return SBool("(or " + " ".join(ts) + ")") if len(ts) > 1 else SBool(ts[0]) if ts else False
        return SBool(f"(str.prefixof {sterm(prefix)} {sterm(s)})")

    def m_endswith(self, s, suffix, *a):
        if a:
            raise Unsupported("endswith with bounds")
        return SBool(f"(str.suffixof {sterm(suffix)} {sterm(s)})")

    def m_decode(self, s, *a, **k):
        stub = self.stubs.get("bytes.decode")
        if stub is not None:
            return stub(self, s, *a, **k)
        return SStr(s.t)

    def m_encode(self, s, *a, **k):
        return SBytes(s.t)

    def _strip(self, s, chars, left, right):
        """s.strip/lstrip/rstrip(chars) for a concrete, non-empty set of characters: s = l ++ core ++ r with l, r made of
        those characters only and core neither starting (if left) nor ending (if right) with one of them."""
        if isinstance(chars, bytes):
            chars = chars.decode("latin-1")
        if not isinstance(chars, str) or not chars:
            raise Unsupported("strip() without a concrete character set")
        if isinstance(s, (str, bytes)):
            return s
        cls = type(s)
        cset = lit(chars[0]) if len(chars) == 1 else None
        one = f"(str.to_re {lit(chars[0])})" if len(chars) == 1 else "(re.union %s)" % " ".join(f"(str.to_re {lit(c)})" for c in chars)
        core = self.P.fresh("core")
        parts = []
        if left:
            l_ = self.P.fresh("lpad")
            self.P.pc.append(f"(str.in_re {l_} (re.* {one}))")
            self.P.pc.append(f"(not (str.in_re {core} (re.++ {one} re.all)))")
            parts.append(l_)
        parts.append(core)
        if right:
            r_ = self.P.fresh("rpad")
            self.P.pc.append(f"(str.in_re {r_} (re.* {one}))")
            self.P.pc.append(f"(not (str.in_re {core} (re.++ re.all {one})))")
            parts.append(r_)
        self.P.pc.append(f"(= {s.t} (str.++ {' '.join(parts)}))")
        return cls(core)

    def m_strip(self, s, chars=None):
        if chars is None:
            raise Unsupported("strip() of whitespace on a symbolic string")
        return self._strip(s, chars, True, True)

    def m_rstrip(self, s, chars=None):
        if chars is None:
            raise Unsupported("rstrip() of whitespace on a symbolic string")
        return self._strip(s, chars, False, True)

    def m_lstrip(self, s, chars=None):
        if chars is None:
            raise Unsupported("lstrip() of whitespace on a symbolic string")
        return self._strip(s, chars, True, False)

    def m_lower(self, s):
        raise Unsupported("lower() on a symbolic string")


# ---------------------------------------------------------------------------------------
# adapter to the per-property driver (engine/harness.py)


def as_harness(name, scenario, replay, **kw):
    """Wrap a strx scenario as a driver Harness (kind=custom)."""
    from engine.harness import Harness

    def run(tier):
        r = explore(scenario)
        viol = []
        for v in r.pop("violations"):
            viol.append({"label": v["label"], "model": parse_model(v["model"]), "info": v["info"], "tags": {},
                         "raw_model": v["model"]})
        funcs = set()
        for s in r["samples"]:
            funcs.update(s["notes"].pop("functions", []) or [])
            s["notes"].pop("_render", None)
        return {"engine": "strx (AST interpretation of the current source over cvc5 %s string terms)" % cvc5.__version__,
                "paths": r["paths"], "nontrivial": r["nontrivial"], "infeasible": r["infeasible"], "queries": r["queries"],
                "solver_s": r["solver_s"], "exhaustive": r["exhaustive"], "covers": r["covers"], "samples": r["samples"],
                "functions_executed": sorted(funcs), "inconclusive": r["inconclusive"][:5], "errors": r["errors"][:5],
                "checks": r["checks"], "violations_raw": viol}

    def rep(v):
        try:
            failed = replay(v["label"], v["model"])
        except Exception as e:  # noqa: BLE001
            failed = [{"label": "unexpected-exception:" + type(e).__name__, "info": repr(e)}]
        return {"reproduced": any(f["label"] == v["label"] for f in failed) or
                (bool(failed) and v["label"].startswith("unexpected-exception")), "failed": failed}

    return Harness(name=name, scenario=scenario, kind="custom", custom=run, params={"replay": rep}, **kw)
