"""vloop - the real asyncio event loop on virtual (optionally symbolic) time.

Subclass of SelectorEventLoop: tasks, futures, wait/wait_for, Semaphore, Event, Queue
are the stdlib's.  Only the clock is replaced: time() is an exact rational (Q) or a
symbolic Real (SNum); select() never blocks, it advances the clock to the next timer.
Timer comparisons inside heapq/_run_once go through the proxies, so with symbolic
delays every path is one ordering class of timer events.
"""
from __future__ import annotations

import asyncio
import heapq
from fractions import Fraction

from engine.symx import Abort, Ctx, Q, SNum, exact


class Deadlock(Exception):
    """select() would block forever: nothing ready, nothing scheduled."""


class Livelock(Exception):
    """The loop keeps spinning (more iterations than any scenario here legitimately needs)."""


class VLoop(asyncio.SelectorEventLoop):
    MAX_ITERS = 100_000

    def __init__(self, symbolic=False):
        super().__init__()
        self._vt = Q(0)
        self._clock_resolution = Fraction(1, 10**9)
        self.iters = 0
        self.iter_hook = None
        self.signal_handlers = {}
        self.servers = []
        self.exceptions = []
        orig_select = self._selector.select

        def select(timeout=None):
            if timeout is None:
                raise Deadlock("event loop would block forever")
            if timeout > 0:
                self._vt = self._vt + timeout
            return orig_select(0)

        self._selector.select = select
        self.set_exception_handler(self._on_exception)
        self.all_tasks_ever = []
        self.set_task_factory(self._task_factory)

    def _task_factory(self, loop, coro, **kw):
        t = asyncio.Task(coro, loop=loop, **kw)
        self.all_tasks_ever.append(t)
        return t

    def task_errors(self):
        """Exceptions (other than cancellation) that ended a task, in creation order."""
        out = []
        for t in self.all_tasks_ever:
            if t.done() and not t.cancelled():
                e = t.exception()
                if e is not None:
                    out.append(e)
        return out

    def _on_exception(self, loop, context):
        self.exceptions.append(context)

    def time(self):
        return self._vt

    def call_later(self, delay, callback, *args, context=None):
        if delay is None:
            raise TypeError("delay must not be None")
        return self.call_at(self._vt + delay, callback, *args, context=context)

    def call_at(self, when, callback, *args, context=None):
        if isinstance(when, float):
            when = Q(when)
        return super().call_at(when, callback, *args, context=context)

    def _run_once(self):
        self.iters += 1
        if self.iters > self.MAX_ITERS:
            raise Livelock(f"more than {self.MAX_ITERS} event-loop iterations (virtual time {self._vt})")
        if self.iter_hook is not None:
            self.iter_hook(self)
        super()._run_once()

    # thread/process pools: real threads would race against virtual time, so executor work is
    # run inline and takes zero virtual time (stub; recorded in the evidence)
    def run_in_executor(self, executor, func, *args):
        fut = self.create_future()
        try:
            from concurrent.futures import ProcessPoolExecutor
            if isinstance(executor, ProcessPoolExecutor):
                # work for a process pool travels by pickle: what cannot be pickled (lambdas, closures) fails as it would there
                import pickle
                pickle.dumps((func, args))
            fut.set_result(func(*args))
        except Exception as e:  # noqa: BLE001
            fut.set_exception(e)
        return fut

    # signals: capture the handler, fire it from the harness -------------------------------
    def add_signal_handler(self, sig, callback, *args):
        self.signal_handlers[sig] = (callback, args)

    def remove_signal_handler(self, sig):
        return self.signal_handlers.pop(sig, None) is not None

    def fire_signal(self, sig=None):
        if not self.signal_handlers:
            return False
        if sig is None:
            sig = next(iter(self.signal_handlers))
        cb, args = self.signal_handlers[sig]
        cb(*args)
        return True

    # sockets: capture the protocol factory ------------------------------------------------
    async def create_server(self, protocol_factory, host=None, port=None, **kw):
        # no socket is opened, but the address is resolved the way the real loop does it (numeric literals resolve offline):
        # an IPv6 literal asked for with family=AF_INET fails here as it does for real
        import socket
        if isinstance(host, str) and host:
            numeric = True
            try:
                socket.getaddrinfo(host, port, flags=socket.AI_NUMERICHOST)
            except socket.gaierror:
                numeric = False
            if numeric:
                socket.getaddrinfo(host, port, family=kw.get("family", 0) or 0, type=socket.SOCK_STREAM, flags=socket.AI_NUMERICHOST)
        srv = FakeServer(self, protocol_factory, host, port, kw)
        self.servers.append(srv)
        return srv


class FakeTransport:
    def __init__(self):
        self.written = []
        self.closed = False

    def write(self, data):
        if self.closed:
            raise RuntimeError("write after close")
        self.written.append(data)

    def close(self):
        self.closed = True

    def is_closing(self):
        return self.closed

    def get_extra_info(self, name, default=None):
        return default


class FakeServer:
    """Recording stand-in for asyncio.Server (no sockets)."""

    def __init__(self, loop, factory, host, port, kw):
        self.loop = loop
        self.factory = factory
        self.host = host
        self.port = port
        self.kw = kw
        self.serving = False
        self.closed = False
        self.log = []

    def is_serving(self):
        return self.serving

    async def start_serving(self):
        await asyncio.sleep(0)
        self.serving = True
        self.log.append(("start_serving", self.loop.time()))

    def close(self):
        self.serving = False
        self.closed = True
        self.log.append(("close", self.loop.time()))

    async def wait_closed(self):
        await asyncio.sleep(0)
        self.log.append(("wait_closed", self.loop.time()))

    def connect(self):
        """A client connects now: returns (protocol, transport)."""
        if not self.serving:
            raise ConnectionRefusedError("port closed")
        proto = self.factory()
        tr = FakeTransport()
        proto.connection_made(tr)
        return proto, tr


def run(main_factory, symbolic=False, clock=True):
    """Create a fresh virtual loop, run `main_factory(loop)` to completion, close it."""
    from engine import vtime
    loop = VLoop(symbolic=symbolic)
    asyncio.set_event_loop(loop)
    prev = vtime.current_clock()
    if clock:
        vtime.set_clock(vtime.LoopClock(loop))
    try:
        return loop.run_until_complete(main_factory(loop))
    finally:
        vtime.set_clock(prev)
        try:
            # drop whatever is still pending without running it
            for t in asyncio.all_tasks(loop):
                t._log_destroy_pending = False
            loop._ready.clear()
            loop._scheduled.clear()
        except Exception:  # noqa: BLE001
            pass
        asyncio.set_event_loop(None)
        loop.close()


async def settle(loop, seconds=0):
    """Let stragglers run: wait until nothing but timers further than `seconds` remain."""
    await asyncio.sleep(seconds)
    for _ in range(50):
        await asyncio.sleep(0)
