"""symx - replay-forking symbolic executor for real Python code, decided by z3.

A *scenario* is an ordinary Python function ``scenario(S)`` that calls real repid
code.  ``S`` hands out inputs.  In symbolic mode the inputs are proxy objects that
wrap z3 terms (SBool / SNum / STimedelta / SDatetime); every use of a proxy as a
Python truth value asks the solver whether both outcomes are feasible under the
current path condition and, if so, forks: the untaken outcome is put on a work-list
as a *decision prefix* and the scenario is later re-executed from the start
following that prefix.  ``S.check(label, cond)`` asks the solver for a model of
``path-condition AND NOT cond``; a model is a counterexample for every value inside
that path's region, no model means the assertion is discharged for the whole region.

In concrete mode ``S`` returns plain Python values taken from a solver model, so the
very same scenario function replays a counterexample against the real code with no
symbolic machinery (real ints, real ``datetime``); only what reproduces is reported.
"""
from __future__ import annotations

import os
import sys
import time as _time
import traceback
import zlib
from fractions import Fraction

import z3

# --------------------------------------------------------------------------------------
# control-flow exceptions


class Abort(SystemExit):
    """Stops the current path.  Derives from SystemExit so that asyncio's Task/Handle
    machinery re-raises it instead of storing it in a task or logging it."""

    def __init__(self, kind: str, msg: str = ""):
        super().__init__(f"{kind}: {msg}")
        self.kind = kind
        self.msg = msg


class Inconclusive(Exception):
    pass


class HarnessError(Exception):
    pass


# --------------------------------------------------------------------------------------
# exact rationals for concrete virtual time (floats are read by their decimal repr)


def exact(x):
    """float -> Fraction of its shortest decimal repr (0.001 is one millisecond)."""
    if isinstance(x, float):
        return Fraction(repr(x))
    if isinstance(x, Q):
        return x.f
    if isinstance(x, bool):
        return Fraction(int(x))
    if isinstance(x, (int, Fraction)):
        return Fraction(x)
    return NotImplemented


class Q:
    """Exact rational with float-safe arithmetic (concrete twin of a Real SNum)."""

    __slots__ = ("f",)

    def __init__(self, f=0):
        self.f = exact(f) if not isinstance(f, Fraction) else f

    def _b(self, o, fn):
        o = exact(o)
        return NotImplemented if o is NotImplemented else Q(fn(self.f, o))

    def __add__(s, o): return s._b(o, lambda a, b: a + b)
    __radd__ = __add__
    def __sub__(s, o): return s._b(o, lambda a, b: a - b)
    def __rsub__(s, o): return s._b(o, lambda a, b: b - a)
    def __mul__(s, o): return s._b(o, lambda a, b: a * b)
    __rmul__ = __mul__
    def __truediv__(s, o): return s._b(o, lambda a, b: a / b)
    def __rtruediv__(s, o): return s._b(o, lambda a, b: b / a)
    def __floordiv__(s, o):
        o = exact(o)
        return NotImplemented if o is NotImplemented else s.f // o
    def __neg__(s): return Q(-s.f)
    def __pos__(s): return s
    def __abs__(s): return Q(abs(s.f))
    def _c(self, o, fn):
        o = exact(o)
        return NotImplemented if o is NotImplemented else fn(self.f, o)
    def __lt__(s, o): return s._c(o, lambda a, b: a < b)
    def __le__(s, o): return s._c(o, lambda a, b: a <= b)
    def __gt__(s, o): return s._c(o, lambda a, b: a > b)
    def __ge__(s, o): return s._c(o, lambda a, b: a >= b)
    def __eq__(s, o):
        o = exact(o)
        return False if o is NotImplemented else s.f == o
    def __ne__(s, o): return not s.__eq__(o)
    def __hash__(s): return hash(s.f)
    def __bool__(s): return s.f != 0
    def __float__(s): return float(s.f)
    def __int__(s): return int(s.f)
    def __round__(s, n=None): return round(s.f, n)
    def __repr__(s): return f"Q({s.f})"
    def __deepcopy__(s, memo): return s


# --------------------------------------------------------------------------------------
# z3 helpers

POW2 = z3.Function("pow2", z3.IntSort(), z3.IntSort())


def _rat(fr: Fraction):
    return z3.RealVal(f"{fr.numerator}/{fr.denominator}")


def fingerprint(term) -> int:
    """Order-insensitive fingerprint of a condition: the set of its free constants and applied
    function names.  (z3.simplify orders AC arguments by internal ids, so the printed form of the
    same condition is not stable across re-executions; this is.)"""
    names = set()
    seen = set()
    stack = [term]
    n = 0
    while stack and n < 20000:
        t = stack.pop()
        i = t.get_id()
        if i in seen:
            continue
        seen.add(i)
        n += 1
        if z3.is_app(t):
            k = t.decl().kind()
            if k == z3.Z3_OP_UNINTERPRETED:
                names.add(t.decl().name())
            stack.extend(t.children())
    return zlib.crc32(",".join(sorted(names)).encode())


# --------------------------------------------------------------------------------------
# proxies


class SBool:
    __slots__ = ("e",)

    def __getattr__(self, name):
        # an operation the proxy does not model is "unsupported" (inconclusive), never an AttributeError inside the code under test
        if name.startswith("__") or name in type(self).__slots__:
            raise AttributeError(name)
        raise Abort("unsupported", f"{type(self).__name__}.{name}")

    def __init__(self, e):
        self.e = e

    def __bool__(self):
        return Ctx.cur.decide(self.e)

    def __and__(self, o): return SBool(z3.And(self.e, to_bool_term(o)))
    __rand__ = __and__
    def __or__(self, o): return SBool(z3.Or(self.e, to_bool_term(o)))
    __ror__ = __or__
    def __invert__(self): return SBool(z3.Not(self.e))
    def __eq__(self, o): return SBool(self.e == to_bool_term(o))
    def __ne__(self, o): return SBool(self.e != to_bool_term(o))
    def __hash__(self): return 11
    def __deepcopy__(self, memo): return self
    def __repr__(self): return f"SBool({self.e})"
    def implies(self, o): return SBool(z3.Implies(self.e, to_bool_term(o)))


def to_bool_term(x):
    if isinstance(x, SBool):
        return x.e
    if isinstance(x, bool):
        return z3.BoolVal(x)
    if isinstance(x, SNum):
        return x.e != 0
    if z3.is_expr(x):
        return x
    raise TypeError(f"not a boolean: {x!r}")


def _num_term(x):
    """python/proxy number -> z3 arith term or NotImplemented."""
    if isinstance(x, SNum):
        return x.e
    if isinstance(x, bool):
        return z3.IntVal(int(x))
    if isinstance(x, int):
        return z3.IntVal(x)
    if isinstance(x, float):
        return _rat(Fraction(repr(x)))
    if isinstance(x, Fraction):
        return z3.IntVal(x.numerator) if x.denominator == 1 else _rat(x)
    if isinstance(x, Q):
        return _num_term(x.f)
    return NotImplemented


def _both(a, b):
    """coerce two arith terms to a common sort."""
    if a.is_int() and not b.is_int():
        a = z3.ToReal(a)
    elif b.is_int() and not a.is_int():
        b = z3.ToReal(b)
    return a, b


class SNum:
    """Symbolic number: z3 Int (Python int semantics) or Real (exact; stands for seconds)."""

    __slots__ = ("e",)

    def __getattr__(self, name):
        # an operation the proxy does not model is "unsupported" (inconclusive), never an AttributeError inside the code under test
        if name.startswith("__") or name in type(self).__slots__:
            raise AttributeError(name)
        raise Abort("unsupported", f"{type(self).__name__}.{name}")

    def __init__(self, e):
        self.e = e

    @property
    def is_int(self):
        return self.e.is_int()

    # arithmetic -------------------------------------------------------------------
    def _bin(self, o, fn, swap=False):
        o = _num_term(o)
        if o is NotImplemented:
            return NotImplemented
        a, b = _both(self.e, o)
        if swap:
            a, b = b, a
        return SNum(z3.simplify(fn(a, b)))

    def __add__(s, o): return s._bin(o, lambda a, b: a + b)
    __radd__ = __add__
    def __sub__(s, o): return s._bin(o, lambda a, b: a - b)
    def __rsub__(s, o): return s._bin(o, lambda a, b: a - b, swap=True)
    def __mul__(s, o):
        r = s._bin(o, lambda a, b: a * b)
        if r is NotImplemented:
            from engine import vtime
            if isinstance(o, vtime.real_timedelta):
                return vtime.make_timedelta(vtime.td_us(o) * s)
        return r
    __rmul__ = __mul__
    def __neg__(s): return SNum(z3.simplify(-s.e))
    def __pos__(s): return s
    def __abs__(s): return s if (s >= 0) else -s

    def __truediv__(s, o):
        o = _num_term(o)
        if o is NotImplemented:
            return NotImplemented
        a = z3.ToReal(s.e) if s.e.is_int() else s.e
        b = z3.ToReal(o) if o.is_int() else o
        if not SBool(b != 0):
            raise ZeroDivisionError("division by zero")
        return SNum(z3.simplify(a / b))

    def __rtruediv__(s, o):
        o = _num_term(o)
        if o is NotImplemented:
            return NotImplemented
        return SNum(o).__truediv__(s)

    @staticmethod
    def _floordiv_terms(a, b):
        """Python floor division on terms; forks on the sign of a symbolic divisor."""
        a, b = _both(a, b)
        if a.is_int():
            if SBool(b > 0):
                return a / b  # z3 div == floor for positive divisors
            if SBool(b < 0):
                return (-a) / (-b)
            raise ZeroDivisionError("integer division or modulo by zero")
        if not SBool(b != 0):
            raise ZeroDivisionError("float floor division by zero")
        return z3.ToInt(a / b)  # floor of the real quotient

    def __floordiv__(s, o):
        o = _num_term(o)
        if o is NotImplemented:
            return NotImplemented
        return SNum(z3.simplify(SNum._floordiv_terms(s.e, o)))

    def __rfloordiv__(s, o):
        o = _num_term(o)
        if o is NotImplemented:
            return NotImplemented
        return SNum(z3.simplify(SNum._floordiv_terms(o, s.e)))

    def __mod__(s, o):
        q = s // o
        if q is NotImplemented:
            return NotImplemented
        return s - q * o

    def __rmod__(s, o):
        o = _num_term(o)
        if o is NotImplemented:
            return NotImplemented
        return SNum(o) % s

    def __divmod__(s, o):
        q = s // o
        return q, s - q * o

    def bit_length(s):
        """int.bit_length(): k with 2**(k-1) <= |n| < 2**k (0 for 0), over the uninterpreted pow2 with its axioms."""
        if not s.is_int:
            raise AttributeError("bit_length")
        c = Ctx.cur
        if SBool(s.e == 0):
            return 0
        mag = s.e if SBool(s.e > 0) else -s.e
        c.fresh = getattr(c, "fresh", 0) + 1
        k = z3.Int(f"bit_length!{c.fresh}")
        c.add(k >= 1)
        lo, hi = c.pow2(k - 1), c.pow2(k)
        c.add(lo <= mag)
        c.add(mag < hi)
        c.model = None
        return SNum(k)

    def __rpow__(s, base):
        if base != 2 or not s.is_int:
            raise Abort("unsupported", f"{base}**symbolic")
        return SNum(Ctx.cur.pow2(s.e))

    def __pow__(s, o):
        if isinstance(o, int) and 0 <= o <= 4:
            r = 1
            for _ in range(o):
                r = s * r
            return r
        raise Abort("unsupported", "symbolic ** exponent")

    # comparisons ------------------------------------------------------------------
    def _cmp(self, o, fn):
        o = _num_term(o)
        if o is NotImplemented:
            return NotImplemented
        a, b = _both(self.e, o)
        return SBool(fn(a, b))

    def __lt__(s, o): return s._cmp(o, lambda a, b: a < b)
    def __le__(s, o): return s._cmp(o, lambda a, b: a <= b)
    def __gt__(s, o): return s._cmp(o, lambda a, b: a > b)
    def __ge__(s, o): return s._cmp(o, lambda a, b: a >= b)

    def __eq__(s, o):
        r = s._cmp(o, lambda a, b: a == b)
        return False if r is NotImplemented else r

    def __ne__(s, o):
        r = s._cmp(o, lambda a, b: a != b)
        return True if r is NotImplemented else r

    def __hash__(s): return 7
    def __bool__(s): return Ctx.cur.decide(s.e != 0)
    def __deepcopy__(s, memo): return s
    def __copy__(s): return s

    # concretisation (explicit, bounded, recorded) ---------------------------------
    def __index__(s):
        if not s.is_int:
            raise TypeError("Real SNum used as an index")
        return Ctx.cur.concretize(s.e)

    def __int__(s):
        # builtin int() must return a real int: enumerate.  Code that needs a symbolic
        # truncation gets `sym_int` patched into its module namespace instead.
        if s.is_int:
            return Ctx.cur.concretize(s.e)
        return Ctx.cur.concretize(z3.simplify(trunc_term(s.e)))

    def __str__(s):
        return Ctx.cur.sentinel_str(s)

    def __repr__(s):
        return f"SNum({s.e})"

    def __format__(s, spec):
        return Ctx.cur.sentinel_str(s)

    def __round__(s, n=None):
        raise Abort("unsupported", "round() of a symbolic number")

    def __floor__(s):
        return s if s.is_int else SNum(z3.simplify(z3.ToInt(s.e)))

    def __ceil__(s):
        return s if s.is_int else SNum(z3.simplify(-z3.ToInt(-s.e)))

    def __trunc__(s):
        return SNum(z3.simplify(trunc_term(s.e)))

    def __float__(s):
        raise TypeError("symbolic number has no float value (patch `float` in the module under test)")


def trunc_term(e):
    """int() truncation toward zero of a Real term."""
    if e.is_int():
        return e
    return z3.If(e >= 0, z3.ToInt(e), -z3.ToInt(-e))


def sym_int(x, *a):
    """Drop-in for builtin int() inside repid modules: keeps SNum symbolic."""
    if isinstance(x, SNum):
        return SNum(z3.simplify(trunc_term(x.e)))
    if isinstance(x, Q):
        return int(x.f)
    if isinstance(x, str) and Ctx.cur is not None and x in Ctx.cur.sentinels:
        return sym_int(Ctx.cur.sentinels[x])
    return int(x, *a)


def sym_float(x):
    """Drop-in for builtin float(): symbolic seconds pass through exactly (see lemma L-FP)."""
    if isinstance(x, (SNum, Q)):
        return x
    if isinstance(x, str) and Ctx.cur is not None and x in Ctx.cur.sentinels:
        return Ctx.cur.sentinels[x]
    return float(x)


def sym_str(x):
    return str(x)


def smin(a, b):
    if isinstance(a, SNum) or isinstance(b, SNum):
        ta, tb = _both(_num_term(a), _num_term(b))
        return SNum(z3.simplify(z3.If(ta <= tb, ta, tb)))
    return min(a, b)


def smax(a, b):
    if isinstance(a, SNum) or isinstance(b, SNum):
        ta, tb = _both(_num_term(a), _num_term(b))
        return SNum(z3.simplify(z3.If(ta >= tb, ta, tb)))
    return max(a, b)


def all_of(*conds):
    if any(isinstance(c, SBool) for c in conds):
        return SBool(z3.And(*[to_bool_term(c) for c in conds]))
    return all(conds)


def any_of(*conds):
    if any(isinstance(c, SBool) for c in conds):
        return SBool(z3.Or(*[to_bool_term(c) for c in conds]))
    return any(conds)


def implies(a, b):
    if isinstance(a, SBool) or isinstance(b, SBool):
        return SBool(z3.Implies(to_bool_term(a), to_bool_term(b)))
    return (not a) or b


def neg(a):
    if isinstance(a, SBool):
        return ~a
    return not a


def ite(c, a, b):
    """Value-level if-then-else without forking (numbers only)."""
    if isinstance(c, SBool):
        ta, tb = _both(_num_term(a), _num_term(b))
        return SNum(z3.simplify(z3.If(c.e, ta, tb)))
    return a if c else b


# --------------------------------------------------------------------------------------
# the execution context


class PathResult:
    __slots__ = ("prefix", "path", "forks", "violations", "covers", "notes", "queries",
                 "solver_s", "depth", "status", "error", "pc_sample", "new_prefixes", "wall_s",
                 "concretized", "functions", "checks")

    def __init__(self):
        self.violations = []
        self.covers = set()
        self.notes = {}
        self.queries = 0
        self.solver_s = 0.0
        self.depth = 0
        self.forks = 0
        self.status = "ok"
        self.error = None
        self.pc_sample = None
        self.new_prefixes = []
        self.wall_s = 0.0
        self.concretized = 0
        self.functions = None
        self.checks = 0

    def as_dict(self):
        return {k: getattr(self, k, None) for k in self.__slots__}


class Ctx:
    """One path of one scenario (symbolic mode)."""

    cur: "Ctx | None" = None
    SOLVER_TIMEOUT_MS = 120000
    MAX_CONCRETIZE = 64
    MAX_DEPTH = 4000

    def __init__(self, prefix=()):
        self.mode = "sym"
        self.prefix = list(prefix)
        self.path = []           # list of (bool, fingerprint)
        self.solver = z3.Solver()
        self.solver.set("timeout", self.SOLVER_TIMEOUT_MS)
        self.model = None        # a model of the current path condition, if known
        self.res = PathResult()
        self.pc_terms = []
        self.vars = {}           # name -> z3 const
        self.sentinels = {}      # sentinel string -> proxy
        self._sent_rev = {}
        self.pow2_apps = []
        self.clock = None
        self.tags = {}
        self.forked = False
        self.scratch = {}

    # -- solver ---------------------------------------------------------------------
    def _check(self, *assumptions):
        t = _time.perf_counter()
        r = self.solver.check(*assumptions)
        self.res.solver_s += _time.perf_counter() - t
        self.res.queries += 1
        return str(r)

    def add(self, term):
        self.solver.add(term)
        self.pc_terms.append(term)

    def assume(self, cond):
        """Add an input constraint (precondition).  Must stay satisfiable."""
        if isinstance(cond, bool):
            if not cond:
                raise Abort("infeasible", "assume(False)")
            return
        t = to_bool_term(cond)
        self.add(t)
        if self.model is not None and not z3.is_true(self.model.eval(t, model_completion=True)):
            self.model = None

    def ensure_model(self):
        if self.model is None:
            r = self._check()
            if r == "sat":
                self.model = self.solver.model()
            elif r == "unsat":
                raise Abort("infeasible", "path condition unsatisfiable")
            else:
                raise Abort("unknown", "solver returned unknown on the path condition")
        return self.model

    def decide(self, cond) -> bool:
        cond = z3.simplify(cond)
        if z3.is_true(cond):
            return True
        if z3.is_false(cond):
            return False
        # a condition this path has already decided keeps its answer (the path condition only grows): no query, no new decision -
        # a polling loop that asks the same question every millisecond costs nothing after the first time
        memo = self.__dict__.setdefault("_decided", {})
        hit = memo.get(cond.get_id())
        if hit is not None:
            return hit[1]
        i = len(self.path)
        if i >= self.MAX_DEPTH:
            raise Abort("budget", "decision depth limit")
        fp = fingerprint(cond)
        if i < len(self.prefix):
            kind, v, pfp = self.prefix[i]
            if pfp != fp or kind != "b":
                raise Abort("nondeterminism", f"decision {i} differs from the recorded prefix")
            self.path.append(("b", v, fp))
            self.add(cond if v else z3.Not(cond))
            self.model = None
            memo[cond.get_id()] = (cond, v)
            return v
        m = self.ensure_model()
        v = z3.is_true(m.eval(cond, model_completion=True))
        other = z3.Not(cond) if v else cond
        r = self._check(other)
        if r == "sat":
            self.res.new_prefixes.append(self.path + [("b", not v, fp)])
            self.res.forks += 1
            self.forked = True
        elif r != "unsat":
            raise Abort("unknown", "solver returned unknown at a branch")
        self.path.append(("b", v, fp))
        self.add(cond if v else z3.Not(cond))
        memo[cond.get_id()] = (cond, v)
        return v

    def concretize(self, term) -> int:
        """Enumerate the feasible values of an Int term by forking (bounded, recorded).

        The chosen value is stored in the decision prefix, so re-executions do not depend
        on which model the solver happens to return."""
        term = z3.simplify(term)
        if z3.is_int_value(term):
            return term.as_long()
        i = len(self.path)
        fp = fingerprint(term)
        excluded = []
        if i < len(self.prefix):
            kind, v, pfp = self.prefix[i]
            if pfp != fp or kind not in ("c", "x"):
                raise Abort("nondeterminism", f"concretisation {i} differs from the recorded prefix")
            if kind == "c":
                self.path.append(("c", v, fp))
                self.add(term == v)
                self.model = None
                return v
            excluded = list(v)
        if len(excluded) >= self.MAX_CONCRETIZE:
            raise Abort("budget", "concretisation of more than %d values" % self.MAX_CONCRETIZE)
        if excluded:
            r = self._check(*[term != e for e in excluded])
            if r == "unsat":
                raise Abort("infeasible", "no further value")
            if r != "sat":
                raise Abort("unknown", "solver returned unknown while concretising")
            m = self.solver.model()
        else:
            m = self.ensure_model()
        v = m.eval(term, model_completion=True).as_long()
        self.res.concretized += 1
        r = self._check(*[term != e for e in excluded + [v]])
        if r == "sat":
            self.res.new_prefixes.append(self.path + [("x", excluded + [v], fp)])
            self.res.forks += 1
            self.forked = True
        elif r != "unsat":
            raise Abort("unknown", "solver returned unknown while concretising")
        self.path.append(("c", v, fp))
        self.add(term == v)
        self.model = None
        return v

    # -- uninterpreted 2**n ------------------------------------------------------------
    def pow2(self, t):
        t = z3.simplify(t)
        if z3.is_int_value(t):
            return z3.IntVal(2 ** t.as_long())
        app = POW2(t)
        ax = [app >= 1, z3.Implies(t >= 0, app >= t + 1), z3.Implies(t >= 64, app >= 2 ** 64)]
        ax += [z3.Implies(t == k, app == 2 ** k) for k in range(0, 65)]
        for u, appu in self.pow2_apps:
            d = z3.simplify(t - u)
            if z3.is_int_value(d) and abs(d.as_long()) <= 64:
                k = d.as_long()
                ax.append(app == appu * 2 ** k if k >= 0 else appu == app * 2 ** (-k))
            else:
                ax.append(z3.Implies(t <= u, app <= appu))
                ax.append(z3.Implies(u <= t, appu <= app))
                ax.append(z3.Implies(t < u, 2 * app <= appu))
                ax.append(z3.Implies(u < t, 2 * appu <= app))
        self.pow2_apps.append((t, app))
        for a in ax:
            self.solver.add(a)
        self.pc_terms.extend(ax)
        return app

    # -- sentinels (symbolic leaves crossing text) ---------------------------------------
    def sentinel_str(self, obj) -> str:
        k = self._sent_rev.get(id(obj))
        if k is None:
            k = "§%d§" % len(self.sentinels)
            self.sentinels[k] = obj
            self._sent_rev[id(obj)] = k
            self.scratch.setdefault("_keep", []).append(obj)
        return k

    # -- results ----------------------------------------------------------------------
    def check(self, label, cond, info=None):
        """Assertion: must hold for every value in this path's region."""
        self.res.checks += 1
        if isinstance(cond, bool):
            if cond:
                return True
            m = self.ensure_model()
            self._violation(label, m, info)
            return False
        t = z3.simplify(to_bool_term(cond))
        if z3.is_true(t):
            return True
        r = self._check(z3.Not(t))
        if r == "unsat":
            return True
        if r == "sat":
            self._violation(label, self.solver.model(), info)
            return False
        raise Abort("unknown", f"solver returned unknown on assertion {label}")

    def _violation(self, label, model, info):
        vals = {}
        for name, const in self.vars.items():
            v = model.eval(const, model_completion=True)
            vals[name] = _py_value(v)
        self.res.violations.append({"label": label, "model": vals, "info": info,
                                    "tags": dict(self.tags), "path_len": len(self.path)})


def _py_value(v):
    if z3.is_int_value(v):
        return v.as_long()
    if z3.is_rational_value(v):
        fr = Fraction(v.numerator_as_long(), v.denominator_as_long())
        return int(fr) if fr.denominator == 1 else [fr.numerator, fr.denominator]
    if z3.is_true(v):
        return True
    if z3.is_false(v):
        return False
    if z3.is_algebraic_value(v):
        a = v.approx(20)
        return [a.numerator_as_long(), a.denominator_as_long()]
    return str(v)


# --------------------------------------------------------------------------------------
# the input provider handed to scenarios


class Inputs:
    """`S` in scenarios.  mode == 'sym' or 'concrete'."""

    def __init__(self, ctx=None, values=None):
        self.ctx = ctx
        self.mode = "sym" if ctx is not None else "concrete"
        self.values = values or {}
        self.failed = []      # concrete mode: failed labels
        self.covers = set()
        self.notes = {}
        self.tags = {}
        self.clock = None
        self.used = {}

    @property
    def sym(self):
        return self.mode == "sym"

    # numbers ------------------------------------------------------------------------
    def int(self, name, lo=None, hi=None):
        if self.sym:
            c = self.ctx
            if name in c.vars:
                raise HarnessError(f"duplicate input {name}")
            v = z3.Int(name)
            c.vars[name] = v
            if lo is not None:
                c.add(v >= lo)
            if hi is not None:
                c.add(v <= hi)
            c.model = None
            return SNum(v)
        v = self.values.get(name)
        if v is None:
            v = lo if lo is not None else (hi if hi is not None and hi < 0 else 0)
        self.used[name] = v
        return int(v)

    def real(self, name, lo=None, hi=None, lo_strict=False):
        """A real-valued input (seconds).  Pure linear real arithmetic: use for timer durations."""
        if self.sym:
            c = self.ctx
            if name in c.vars:
                raise HarnessError(f"duplicate input {name}")
            v = z3.Real(name)
            c.vars[name] = v
            if lo is not None:
                c.add(v > _num_term(lo) if lo_strict else v >= _num_term(lo))
            if hi is not None:
                c.add(v <= _num_term(hi))
            c.model = None
            return SNum(v)
        v = self.values.get(name)
        if v is None:
            v = hi if (lo_strict or lo is None) and hi is not None else (lo if lo is not None else 0)
        if isinstance(v, (list, tuple)):
            v = Fraction(v[0], v[1])
        self.used[name] = v
        return Q(v)

    def bool(self, name):
        if self.sym:
            c = self.ctx
            v = z3.Bool(name)
            c.vars[name] = v
            return SBool(v)
        v = bool(self.values.get(name, False))
        self.used[name] = v
        return v

    def pick(self, name, n):
        """A discrete selector in range(n), enumerated by forking: returns a Python int."""
        if self.sym:
            old = self.ctx.MAX_CONCRETIZE
            self.ctx.MAX_CONCRETIZE = max(old, n + 1)
            try:
                return int(self.int(name, 0, n - 1))
            finally:
                self.ctx.MAX_CONCRETIZE = old
        return self.int(name, 0, n - 1)

    def flag(self, name):
        """A boolean enumerated by forking: returns a Python bool."""
        return bool(self.bool(name))

    def seconds(self, us):
        """microsecond count -> seconds as an exact number usable as an asyncio delay."""
        if isinstance(us, SNum):
            return us / 1000000
        return Q(Fraction(us, 1000000))

    # time ---------------------------------------------------------------------------
    def timedelta_us(self, us):
        from engine import vtime
        return vtime.make_timedelta(us)

    def datetime_us(self, us):
        from engine import vtime
        return vtime.make_datetime(us)

    def timedelta(self, name, lo_us=None, hi_us=None):
        return self.timedelta_us(self.int(name, lo_us, hi_us))

    def datetime(self, name, lo_us=None, hi_us=None):
        return self.datetime_us(self.int(name, lo_us, hi_us))

    # constraints and assertions ---------------------------------------------------------
    def assume(self, cond):
        if self.sym:
            self.ctx.assume(cond)
        elif not cond:
            raise Abort("infeasible", "assumption false under the replayed model")

    def check(self, label, cond, info=None):
        if self.sym:
            return self.ctx.check(label, cond, info)
        ok = bool(cond)
        if not ok:
            self.failed.append({"label": label, "info": info})
        return ok

    def cover(self, label):
        if self.sym:
            self.ctx.res.covers.add(label)
        else:
            self.covers.add(label)

    def note(self, key, value):
        if self.sym:
            self.ctx.res.notes[key] = value
        else:
            self.notes[key] = value

    def tag(self, key, value):
        """A discrete fact about this path used to classify violations (known findings)."""
        if self.sym:
            self.ctx.tags[key] = value
        self.tags[key] = value

    def is_true(self, cond):
        """Fork on a condition, returning a Python bool."""
        return bool(cond)


# --------------------------------------------------------------------------------------
# running paths


_profile_funcs = None


def _profiler(frame, event, arg):
    if event == "call":
        fn = frame.f_code.co_filename
        if "/repid/" in fn and "/site-packages/" not in fn:
            _profile_funcs.add(fn.split("/repid/", 1)[1] + ":" + frame.f_code.co_qualname)


def run_path(scenario, prefix, profile=False):
    """Execute one symbolic path.  Returns PathResult (as dict, picklable)."""
    global _profile_funcs
    t0 = _time.perf_counter()
    ctx = Ctx(prefix)
    Ctx.cur = ctx
    S = Inputs(ctx)
    res = ctx.res
    res.prefix = list(prefix)
    if profile:
        _profile_funcs = set()
        sys.setprofile(_profiler)
        import threading
        threading.setprofile(_profiler)
    try:
        scenario(S)
    except Abort as a:
        if a.kind == "infeasible":
            res.status = "infeasible"
        elif a.kind in ("unknown", "budget", "unsupported"):
            res.status = "inconclusive"
            res.error = str(a)
        else:
            res.status = "harness-error"
            res.error = str(a)
    except RecursionError as e:  # pragma: no cover
        res.status = "harness-error"
        res.error = "RecursionError " + str(e)
    except Exception as e:  # noqa: BLE001
        if not _passes_through_code_under_test(e):
            # raised and propagated entirely inside /verif (harness, engine, fakes): a mistake of the machinery, or a
            # harness reaching into an internal that no longer exists - never a statement about the property
            res.status = "harness-error"
            res.error = ("exception inside the verification machinery (no frame of the code under test): "
                         + "".join(traceback.format_exception(e))[-1200:])
        else:
            _candidate_exception(ctx, res, e)
    finally:
        if profile:
            sys.setprofile(None)
            import threading
            threading.setprofile(None)
            res.functions = sorted(_profile_funcs)
        Ctx.cur = None
    res.path = list(ctx.path)
    res.depth = len(ctx.path)
    if ctx.pc_terms and res.status == "ok":
        try:
            res.pc_sample = [str(t)[:160] for t in ctx.pc_terms[-6:]]
        except Exception:  # noqa: BLE001
            res.pc_sample = None
    res.wall_s = _time.perf_counter() - t0
    d = res.as_dict()
    d["covers"] = sorted(res.covers)
    d["tags"] = dict(ctx.tags)
    return d


def _candidate_exception(ctx, res, e):
    # an exception escaping the scenario: a candidate finding, to be confirmed by replay
    try:
        m = ctx.ensure_model()
        ctx._violation("unexpected-exception:" + type(e).__name__, m,
                       "".join(traceback.format_exception(e))[-1500:])
    except Abort as a:
        res.status = "harness-error"
        res.error = f"exception {e!r} on a path whose condition could not be solved: {a}"


def _passes_through_code_under_test(e) -> bool:
    """True if any traceback frame of the exception (or of its causes) lies in the tree under test."""
    import os
    if type(e).__name__ in ("Livelock", "Deadlock"):
        return True          # raised by the virtual loop about the run as a whole: the code under test spins or is stuck
    root = os.path.realpath(os.environ.get("VERIF_REPO", "/repo")) + os.sep
    seen = set()
    stack = [e]
    while stack:
        x = stack.pop()
        if x is None or id(x) in seen:
            continue
        seen.add(id(x))
        tb = x.__traceback__
        while tb is not None:
            if os.path.realpath(tb.tb_frame.f_code.co_filename).startswith(root):
                return True
            tb = tb.tb_next
        stack.extend([x.__cause__, x.__context__])
        if isinstance(x, BaseExceptionGroup):
            stack.extend(x.exceptions)
    return False


def run_concrete(scenario, values):
    """Replay a model against the real code with plain Python values."""
    Ctx.cur = None
    S = Inputs(None, values)
    exc = None
    try:
        scenario(S)
    except Abort as a:
        return {"failed": S.failed, "aborted": str(a), "exception": None, "notes": S.notes, "used": S.used}
    except Exception as e:  # noqa: BLE001
        exc = "".join(traceback.format_exception(e))[-3000:]
        kind = "unexpected-exception:" if _passes_through_code_under_test(e) else "harness-exception:"
        S.failed.append({"label": kind + type(e).__name__, "info": exc})
    return {"failed": S.failed, "aborted": None, "exception": exc, "notes": S.notes, "used": S.used,
            "covers": sorted(S.covers)}


# pool plumbing ----------------------------------------------------------------------------

_POOL_SCENARIO = None
PROFILE_PATHS = 5


def _pool_run(args):
    prefix, profile = args
    return run_path(_POOL_SCENARIO, prefix, profile)


class Exploration:
    def __init__(self):
        self.paths = 0
        self.nontrivial = 0
        self.infeasible = 0
        self.queries = 0
        self.solver_s = 0.0
        self.max_depth = 0
        self.violations = []
        self.covers = set()
        self.inconclusive = []
        self.errors = []
        self.samples = []
        self.exhaustive = False
        self.wall_s = 0.0
        self.functions = []
        self.concretized = 0
        self.cpu_s = 0.0
        self.checks = 0


def explore(scenario, workers=1, budget_s=None, max_paths=None, sample_every=None):
    """Exhaust the work-list of decision prefixes of `scenario`."""
    global _POOL_SCENARIO
    t0 = _time.perf_counter()
    ex = Exploration()
    todo = [[]]
    first = True

    def absorb(r):
        nonlocal first
        ex.paths += 1 if r["status"] in ("ok", "inconclusive") else 0
        if r["status"] == "infeasible":
            ex.infeasible += 1
        ex.queries += r["queries"]
        ex.solver_s += r["solver_s"]
        ex.cpu_s += r["wall_s"]
        ex.concretized += r["concretized"]
        ex.checks += r["checks"]
        ex.max_depth = max(ex.max_depth, r["depth"])
        if r["status"] == "ok" and r["depth"] > 0:
            ex.nontrivial += 1
        for v in r["violations"]:
            v["prefix"] = r["path"]
            ex.violations.append(v)
        ex.covers.update(r["covers"])
        if r["status"] == "inconclusive":
            ex.inconclusive.append(r["error"])
        if r["status"] == "harness-error":
            ex.errors.append(r["error"])
        if r.get("functions"):
            ex.functions = sorted(set(ex.functions) | set(r["functions"]))
        if len(ex.samples) < 4 and r["status"] == "ok" and (r["depth"] > 0 or first):
            ex.samples.append({"decisions": [d[1] for d in r["path"]][:40],
                               "path_condition_tail": r["pc_sample"], "notes": _jsonable(r["notes"]),
                               "tags": _jsonable(r.get("tags"))})
        first = False
        todo.extend(r["new_prefixes"])

    def over_budget():
        if budget_s is not None and _time.perf_counter() - t0 > budget_s:
            return True
        return max_paths is not None and ex.paths >= max_paths

    if workers <= 1:
        while todo and not over_budget():
            prefix = todo.pop()
            absorb(run_path(scenario, prefix, profile=(ex.paths < PROFILE_PATHS)))
    else:
        import multiprocessing as mp
        _POOL_SCENARIO = scenario
        mpctx = mp.get_context("fork")
        with mpctx.Pool(workers) as pool:
            pending = []
            submitted = 1
            pending.append(pool.apply_async(_pool_run, ((todo.pop(), True),)))
            while pending:
                progressed = False
                for p in list(pending):
                    if p.ready():
                        pending.remove(p)
                        absorb(p.get())
                        progressed = True
                while todo and len(pending) < workers * 3 and not over_budget():
                    pending.append(pool.apply_async(_pool_run, ((todo.pop(), submitted < PROFILE_PATHS),)))
                    submitted += 1
                if over_budget() and not pending:
                    break
                if not progressed:
                    _time.sleep(0.002)
    ex.exhaustive = not todo and not ex.inconclusive and not ex.errors
    ex.remaining = len(todo)
    ex.wall_s = _time.perf_counter() - t0
    return ex


def _jsonable(x):
    import json
    try:
        json.dumps(x)
        return x
    except Exception:  # noqa: BLE001
        if isinstance(x, dict):
            return {str(k): _jsonable(v) for k, v in x.items()}
        if isinstance(x, (list, tuple, set)):
            return [_jsonable(v) for v in x]
        return repr(x)[:200]
