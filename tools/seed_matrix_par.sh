#!/bin/sh
# Parallel variant of seed_matrix.sh: each seeded change is applied to its own scratch worktree of /repo HEAD (plus /repo's
# uncommitted changes) and the quick check of its property runs against that worktree (./check --repo).  Evidence of runs against
# another tree than /repo is kept apart (removed at the end).  usage: SEEDS="seeded/C01-m1 ..." JOBS=4 tools/seed_matrix_par.sh
cd /verif
mkdir -p /tmp/mx; git -C /repo worktree prune
for D in ${SEEDS:-seeded/C*-m?}; do echo $D; done | xargs -P ${JOBS:-4} -I{} sh -c '
  D={}; ID=$(basename $D); PROP=${ID%%-*}; W=/tmp/mx/$ID
  rm -rf $W; git -C /repo worktree add -q --detach $W HEAD 2>/dev/null || { echo "$ID WORKTREE-FAILED"; exit 0; }
  if ! git -C $W apply /verif/$D/patch.diff 2>/dev/null; then echo "$ID PATCH-DOES-NOT-APPLY" | tee /verif/$D/detect.txt; git -C /repo worktree remove --force $W; exit 0; fi
  cd /verif; ./check $PROP --tier quick --repo $W > /tmp/mx/$ID.out 2>&1; RC=$?
  git -C /repo worktree remove --force $W
  V=$(grep -c "^VIOLATION" /tmp/mx/$ID.out)
  LABELS=$(grep "^  H" /tmp/mx/$ID.out | sed -E "s/^  (H[^:]*): .([^'"'"']*).*/\1:\2/" | sort -u | head -4 | tr "\n" " ")
  echo "$ID check=$PROP exit=$RC violations=$V $LABELS" | tee /verif/$D/detect.txt'
rm -rf /tmp/mx /var/tmp/repid-verif-evidence-other; git -C /repo worktree prune
