#!/bin/sh
# For every seeded change: apply to /repo, run the quick check of its property, undo. Writes seeded/<id>/detect.txt
cd /verif
for D in ${SEEDS:-seeded/C*-m?}; do
  ID=$(basename $D); PROP=${ID%%-*}
  git -C /repo apply /verif/$D/patch.diff 2>/dev/null || { echo "$ID PATCH-DOES-NOT-APPLY" | tee $D/detect.txt; continue; }
  ./check $PROP --tier quick > /tmp/seed_matrix.out 2>&1; RC=$?
  git -C /repo checkout -- . ; git -C /repo clean -fdq repid
  V=$(grep -c "^VIOLATION" /tmp/seed_matrix.out)
  LABELS=$(grep "^  H" /tmp/seed_matrix.out | sed -E "s/^  (H[^:]*): '([^']*)'.*/\1:\2/" | sort -u | head -4 | tr '\n' ' ')
  echo "$ID check=$PROP exit=$RC violations=$V $LABELS" | tee $D/detect.txt
done
git -C /repo status --short | head -3
