#!/usr/bin/env python3
"""Regenerates MANIFEST.json from the table below (run from /verif)."""
import json, os, sys
sys.path.insert(0, os.path.dirname(os.path.dirname(os.path.abspath(__file__))))
from tools.manifest_table import CHECKS, NOT_APPLICABLE

ALL = ["C%02d" % i for i in range(1, 21)]
LEVEL_TEXT = ("Bounded symbolic execution of the real repid code, SMT-decided: inputs, clock values, retry state, "
              "selectors and timer durations are solver variables; each assertion is discharged for every value inside "
              "the stated bounds on every explored path (work-list drained = exhaustive within the bound), and a "
              "counterexample model is replayed on the real code before it is reported. Not a proof: nothing is claimed "
              "outside the bounds listed in the evidence file.")
checks = []
for pid in ALL:
    if pid not in CHECKS:
        continue
    c = CHECKS[pid]
    checks.append({
        "property_id": pid,
        "quick_cmd": f"./check {pid} --tier quick",
        "thorough_cmd": f"./check {pid} --tier thorough",
        "evidence_file": f"/verif/evidence/{pid}.json",
        "replay_cmd_template": "./check replay {path}",
        "engine": c.get("engine", "symx"),
        "level_claimed": {"category": "other", "text": LEVEL_TEXT + " " + c["text"], "design_ref": c.get("design_ref", "DESIGN.md §3")},
        "level_note": c["note"],
        "technique": c["technique"],
    })
na = [{"property_id": p, "reason": NOT_APPLICABLE.get(p, "no solver-decided harness has been built for this property yet; not claimed")}
      for p in ALL if p not in CHECKS]
m = {
    "version": 1,
    "setup_cmd": "./setup.sh",
    "hooks": {"guard": "ALEKSUL_REPID_VERIF", "enable": "none needed: all instrumentation is module-global shadowing from the harness (engine/env.py); no guarded source change exists",
              "baseline_off_cmd": "cd /repo && /venv/bin/python -m pytest -ra -q -p no:cacheprovider --timeout=900 --continue-on-collection-errors",
              "source_commits": [], "add_only": True},
    "engines": [
        {"name": "symx", "path": "engine/symx.py", "serves_properties": sorted(CHECKS), "kind_free_text": "replay-forking symbolic executor over z3 (proxies for int/real/bool/timedelta/datetime) running the unmodified repid functions"},
        {"name": "vloop", "path": "engine/vloop.py", "serves_properties": [p for p in sorted(CHECKS) if "vloop" in CHECKS[p].get("engine", "")], "kind_free_text": "real asyncio event loop on virtual, optionally symbolic, time"},
        {"name": "strx", "path": "engine/strx.py", "serves_properties": [p for p in sorted(CHECKS) if "strx" in CHECKS[p].get("engine", "")], "kind_free_text": "AST-level symbolic evaluation of string kernels over cvc5 (regex validators translated to RegLan)"},
    ],
    "checks": checks,
    "not_applicable": na,
    "notes": "exit 0 holds within bounds; 1 VIOLATION (replayed on the real code); 2 inconclusive (solver unknown / budget / vacuity guard); 3 harness error. Known findings: known_findings.json.",
}
json.dump(m, open("MANIFEST.json", "w"), indent=1)
print("MANIFEST.json:", len(checks), "checks,", len(na), "not applicable")
