#!/bin/sh
# usage: verify_seed.sh /tmp/seed/out/C04/m1  -> writes VERIFY.txt there
# Confirms in a scratch worktree: suite passes with the change, demo fails with it, demo passes without it.
D=$1; N=$(echo "$D" | tr '/' '_')
W=/tmp/seedverify/$N
rm -rf "$W"; mkdir -p /tmp/seedverify
git -C /repo worktree add -q --detach "$W" 2f5494e 2>/dev/null || git -C /repo worktree add -q --detach "$W" HEAD
cd "$W" || exit 9
DEMO=$(ls "$D"/demo_test.py "$D"/demo.py 2>/dev/null | head -1)
run_demo() { case "$DEMO" in *demo_test.py) /venv/bin/python -m pytest -q -p no:cacheprovider --timeout=600 "$DEMO" >/tmp/seedverify/$N.demo.$1 2>&1;; *) /venv/bin/python "$DEMO" >/tmp/seedverify/$N.demo.$1 2>&1;; esac; echo $?; }
R_WITHOUT=$(run_demo without)
git apply "$D/patch.diff" || { echo "patch does not apply" > "$D/VERIFY.txt"; exit 9; }
R_WITH=$(run_demo with)
unshare -n sh -c "ip link set lo up; /venv/bin/python -m pytest -q -p no:cacheprovider --timeout=900 --continue-on-collection-errors --deselect tests/test_hypothesis.py::test_job_creation --ignore=tests/integration" > /tmp/seedverify/$N.suite 2>&1
R_SUITE=$?
SUMMARY=$(tail -1 /tmp/seedverify/$N.suite)
cd /; git -C /repo worktree remove --force "$W"
echo "demo_without_change_exit=$R_WITHOUT demo_with_change_exit=$R_WITH suite_with_change_exit=$R_SUITE suite_summary=[$SUMMARY]" > "$D/VERIFY.txt"
cat "$D/VERIFY.txt"
