#!/usr/bin/env python3
"""Writes seeded/<id>/meta.json from the verification records next to each seeded change."""
import json, os, re, subprocess
NEEDS = {
 "C01-m1": ("in-memory DELAYED-category consume drops the rest of a same-due-time bucket", "two messages delayed until the identical datetime and a DELAYED-category consumer taking one"),
 "C01-m2": ("Redis take split into LREM/ZREM then a separate marking pipeline", "task cancellation (consumer.finish / worker stop) exactly between the two round trips"),
 "C02-m1": ("convert_outputs moved out of the guarded block in actor_run", "an actor returning a value the converter cannot encode (set under Basic, wrong type under Pydantic)"),
 "C02-m2": ("report_to_broker ladder reordered to failures-first", "recurring job whose run fails with the retry budget exhausted"),
 "C03-m1": ("report_to_broker wrapped in asyncio.shield", "forced cancellation landing inside the report phase of a retry: shielded requeue and the runner's reject both take effect"),
 "C03-m2": ("Redis take split into removal then marking (presented as a double-take fix)", "process death / cancellation between the two Redis commands"),
 "C04-m1": ("_prepare_reschedule/_prepare_retry rewritten with dataclasses.replace, counter reset lost", "recurring job with retries >= 1 and a failed attempt, visible from the next scheduling on"),
 "C04-m2": ("RabbitMQ expiration computed from .seconds/.microseconds (days dropped)", "retry back-off of one day or more on RabbitMQ"),
 "C05-m1": ("RabbitMQ expiration drops the days component", "due time at least 24 h ahead on RabbitMQ"),
 "C05-m2": ("in-memory delayed promotion only when nothing else is ready", "steady inflow of ready messages around and after the due time"),
 "C06-m1": ("timestamp no longer refreshed on reschedule", "recurring job with a ttl, total age exceeding the ttl"),
 "C06-m2": ("ladder restructured: failed recurring job with exhausted retries is nacked", "recurring job failing with no retries left"),
 "C07-m1": ("pydantic model_dump() without mode=json in the JSON encoder", "pydantic model nested inside a container with UUID/Decimal/Enum/set fields"),
 "C07-m2": ("default args_id derived from the job id", "bucket transport and two jobs sharing an explicit id before the first is consumed"),
 "C08-m1": ("BasicConverter forwards only present entries (positional shift)", "positional-only parameter with default omitted while a later positional-only one is present"),
 "C08-m2": ("pydantic input model with validate_default=True", "default value that is not an instance of its annotation and a payload omitting it"),
 "C09-m1": ("semaphore replaced by Event + len(tasks)", "two queues with backlog while saturated: a freed slot wakes every waiting consumer loop"),
 "C09-m2": ("sync actors run on the loop's shared default executor", "sync actor outliving its timeout while the worker is saturated"),
 "C10-m1": ("max_tasks_hit counts len(tasks) instead of semaphore slots", "backlog larger than M with the concurrency limit saturated when the limit is reached"),
 "C10-m2": ("in-memory consume marks processing after the last yield", "cancellation of consume() between dequeue and return"),
 "C11-m1": ("include_router stores the included router's own topic set", "Worker([r1, r2]) built first, then a Worker([r1]) while an r2 message is queued"),
 "C11-m2": ("every queue's consumer gets all of the worker's topics", "multi-queue worker and a same-named actor of another service on a shared queue"),
 "C12-m1": ("reschedule no longer refreshes timestamp (dataclasses.replace rewrite)", "ttl message rescheduled and redelivered after first_timestamp+ttl but before reschedule_time+ttl"),
 "C12-m2": ("RabbitMQ consumer checks overdue in every category", "expired message read through the DEAD category on RabbitMQ"),
 "C13-m1": ("report_to_broker and set_result_bucket run concurrently via gather", "failing result store + slow broker ack + worker stopping right after"),
 "C13-m2": ("Job.result caches the first bucket it fetched", "result read, then a further attempt overwrites the bucket, then read again on the same Job"),
 "C14-m1": ("in-memory requeue inserts the new copy before removing the held one (rewritten on top of the requeue fix)", "requeue cancelled between the two steps followed by the holder's reject, two consumers"),
 "C14-m2": ("consumers finished before finish_gracefully", "in-memory broker, worker stops consuming while an actor is still in flight, second consumer on the queue"),
 "C15-m1": ("in-memory reject routed like enqueue (into delayed if the message carries a due time)", "returned message carrying a past due time and a newer message enqueued before the next rescan"),
 "C15-m2": ("RabbitMQ consumer parks redelivered messages for 100 ms", "rejected message redelivered and a newer one delivered within 100 ms"),
 "C16-m1": ("result store placed at the first set_* position", "add_callback between two set_result/set_exception calls"),
 "C16-m2": ("read-only flag set before the checks (refused retry consumes the handle)", "retry refused for lack of budget followed by another action on the same handle"),
 "C17-m1": ("inside-middleware flag set in the caller's context and not reset on failure", "a failed or cancelled wrapped operation followed by further operations in the same task"),
 "C17-m2": ("subscriber kwargs built from the subscriber's own parameters outside the try", "subscriber naming a parameter the call did not supply"),
 "C18-m1": ("override keeps the previous provider's sub-dependencies", "Depends with sub-dependencies overridden by a provider without them"),
 "C18-m2": ("dependency kwargs merged under payload kwargs", "actor with **kwargs under BasicConverter and a payload key named like a dependency parameter"),
 "C19-m1": ("retry policy clamps after building the unclamped timedelta", "max_exponent large enough that multiplier*2**e overflows timedelta"),
 "C19-m2": ("int(a/b) truncation instead of floor division in compute_next_execution_time", "now before the time base and off the period grid"),
 "C20-m1": ("class-level shared request buffer in the health protocol", "a connection sending bytes without terminator, then any request on another connection"),
 "C20-m2": ("health server stopped in a finally right after consuming stops", "probe during the graceful period while an actor is still in flight"),
}
STATUS = {
 "C10-m1": "neutralised at HEAD: after fix a29ac05 (messages_limit checked when a task is started) this change no longer breaks C10; its demo passes with the change applied",
 "C10-m2": "at HEAD it no longer breaks C10 (fix a29ac05 stops consuming before another consume() is in flight); it still breaks C01 and C03 and is reported by ./check C01 and ./check C03",
 "C14-m1": "rewritten by hand on top of fix 'in-memory requeue replaces the message in one step' (the function it changed was rewritten); same idea: new copy inserted before the held one is removed",
 "C14-m2": "at HEAD the change no longer passes the existing suite (5 tests of tests/test_dependencies.py fail), i.e. ordinary tests now expose it; ./check C14 reports it too",
 "C19-m2": "patch rebased by hand onto the cadence fix; the agent's demo asserts the pre-fix time base and fails at HEAD even without the change; ./check C19 reports the change",
 "C20-m2": "at HEAD the change makes tests/test_worker.py::test_health_check_server fail (the messages_limit fix made the stock test sensitive to it); ./check C20 reports it too",
 "C09-m2": "NOT detected: needs a real thread pool outliving a timeout; on the virtual-time loop executor work runs inline (stated limit of the technique here)",
}

NEEDS.update({
 "C01-m3": ("RabbitMQ requeue publishes the new version before acking the old delivery", "an immediate requeue whose new copy is delivered on the same channel before the publisher confirm returns: the delivery-tag table entry is overwritten and the wrong delivery is acked"),
 "C02-m3": ("RabbitMQ requeue: publish before ack", "RabbitMQ + a retry with zero delay delivered back to the same consumer before basic_publish returns"),
 "C03-m3": ("graceful finish cancels the wrapper tasks instead of letting them reject", "a stop while an actor is running and the actor outliving the graceful period"),
 "C04-m3": ("RabbitMQ requeue: publish before ack", "RabbitMQ + a retry with zero/sub-millisecond delay and spare prefetch capacity"),
 "C05-m3": ("Redis reject() puts the message in front of the normal queue", "Redis + a not-yet-due message returned via reject (DELAYED-category inspection, closing a listing, shutdown after a retry requeue)"),
 "C06-m3": ("RabbitMQ expiration from timedelta.seconds (days dropped)", "RabbitMQ + distance to the next slot of one day or more"),
 "C07-m3": ("RabbitMQ consumer: falsy priority falls back to the default", "RabbitMQ + a message of priority 0 (LOW) and looking at the key the consumer hands out"),
 "C09-m3": ("execution timeout no longer waits for the cancelled actor to really stop", "actor exceeding its timeout that keeps awaiting during cancellation, saturated worker, another message waiting"),
 "C10-m3": ("messages limit checked before waiting for a free slot (check-then-act)", "two queues with backlog, tasks_limit < messages_limit, fewer remaining executions than waiting consumers"),
 "C11-m3": ("Redis consumer matches topics by bare prefix", "Redis + two topics in one queue where one name is a proper prefix of the other, served by different consumers"),
 "C12-m3": ("Redis consumer dead-letters expired messages itself into the default-priority dead queue", "Redis + non-default priority + ttl run out when a NORMAL consumer reaches the message, then reading the dead-letter queue"),
 "C13-m3": ("eager response stores a stale exception instead of the result set last", "set_exception followed by set_result followed by an eager response in one execution"),
 "C14-m3": ("in-memory consumer 'recovers' unacked messages when it starts", "a second consumer starting on the queue while the first holds a message in flight"),
 "C15-m3": ("Redis consumer looks into the normal list before the due-delayed set", "Redis + a returned message carrying a past next_execution_time and a newer message in the normal list"),
 "C16-m3": ("a failing callback ends the callback chain", "a raising callback followed by a later callback or set_* and an eager response"),
 "C17-m3": ("Redis consumer starts its polling task lazily from inside consume()", "Redis + before_nack/after_nack subscribers + an expired message met by a NORMAL consumer (the nack then runs in the caller's context)"),
 "C18-m3": ("variadic dependency parameters of a provider no longer rejected at declaration", "a provider with *args/**kwargs annotated as a dependency"),
 "C20-m3": ("consumer failure lost when it coincides with the stop request", "consume() raising within a few loop iterations of the stop request while a job is still in flight"),
 "C01-m4": ("Redis requeue stores the new version and delegates placement to reject()", "Redis + a message consumed through the DEAD category and requeued: ends in the dead set again"),
 "C02-m4": ("result bucket built before the message is reported to the broker", "result storing on + an exception whose str() raises, or a result request without a bucket broker"),
 "C03-m4": ("Redis maintenance compares in-flight age with execution_timeout.seconds", "Redis + execution timeout >= 1 day + maintenance later than timeout.seconds after the take"),
 "C04-m4": ("Redis reject no longer restores the delay of the message", "Redis + a retry scheduled with a delay, taken early through the DELAYED category (or prefetched) and handed back"),
 "C05-m4": ("recurring schedule handled before delay_until in compute_next_execution_time", "deferred_until combined with deferred_by/cron and the start more than one period away"),
 "C06-m4": ("period count uses ceil() instead of floor()+1", "completion instant exactly on the period grid"),
 "C07-m4": ("Job.enqueue stores the argument bucket and publishes the message concurrently", "argument bucket + a consumer already waiting + bucket write landing after the publish"),
 "C09-m4": ("Redis consumer fetches under the pause lock", "Redis + saturated worker + unpause while the background fetch holds the lock + messages arriving afterwards"),
 "C10-m4": ("a message taken after the limit was reached is left to consumer.finish()", "RabbitMQ/Redis + two queues + a message available in the second queue when the M-th execution starts"),
 "C11-m4": ("an overridden actor leaves an empty topic set behind", "actor name registered on Q1 then re-registered on Q2 as Q1's only topic; then any message in Q1"),
 "C12-m4": ("shared is_expired helper treats a zero ttl as no ttl", "parameters with ttl == timedelta(0) built directly"),
 "C13-m4": ("runner rejects the message when processing raises (undoes ack/nack on Redis)", "Redis + result storing + store_bucket failing + execution ending in ack or nack"),
 "C14-m4": ("Redis maintenance compares unix seconds with execution_timeout.seconds", "timeout >= 1 day, message in processing longer than timeout.seconds, a maintenance run in that window"),
 "C15-m4": ("in-memory consumer stops scanning at the first matching message", "one in-memory queue with two topics served by different consumers and a foreign-topic message ahead"),
 "C16-m4": ("the eager-response signal becomes an ordinary Exception", "an actor wrapping the eager call in try/except Exception"),
 "C17-m4": ("Repid(..., middlewares=[...]) de-duplicates middlewares process-wide", "two Connections in one process given the same middleware object"),
 "C18-m4": ("top-level providers gathered with return_exceptions, only Exception instances re-raised", "a provider responding eagerly through the message API, or a provider returning an Exception instance as its value"),
 "C20-m4": ("health-check server not started again after it was stopped once", "run() on the same Worker a second time"),
})
STATUS.update({
 "C09-m1": "patch rebased by hand onto the runner fixes (a29ac05 and the hand-back fix); same idea: semaphore replaced by Event + len(tasks)",
 "C10-m3": "patch rebased by hand onto the hand-back fix; same idea: limit checked before the slot wait, nothing re-checked after it",
 "C10-m4": "patch rebased by hand onto the hand-back fix; same idea: the explicit reject of the message taken after the limit is dropped",
})
STATUS.update({
 "C05-m2": "patch context rebased onto the in-memory ownership fix (0c46a3a); unchanged otherwise",
 "C10-m2": "rebased onto 0c46a3a (the holder record moves together with the processing mark); at HEAD it no longer breaks C10 (fix a29ac05 stops consuming before another consume() is in flight); it still breaks C01 and C03 and is reported by ./check C01 and ./check C03",
 "C14-m1": "rewritten by hand twice: on top of the one-step requeue fix and of 0c46a3a; same idea: new copy inserted before the held one is removed (via ack)",
 "C14-m3": "rebased by hand onto 0c46a3a: start() returns every message in 'processing' (anybody's), finish() only its own",
 "C15-m1": "rebased by hand onto 463dedc: reject() uses the message's due time for every category instead of only for the DELAYED one",
})
ROUND2_BASE = "587164b"
for sid in sorted(os.listdir("/verif/seeded")):
    d = f"/verif/seeded/{sid}"
    if not os.path.isdir(d):
        continue
    rd = lambda f: open(f"{d}/{f}").read().strip() if os.path.exists(f"{d}/{f}") else None
    files = sorted(set(re.findall(r"^\+\+\+ b/(.*)$", rd("patch.diff") or "", re.M)))
    det = rd("detect.txt") or ""
    meta = {
        "id": sid, "property": sid.split("-")[0],
        "written_by": "independent sub-agent given only the property text and a scratch worktree " + ("(original tree 2f5494e)" if sid[-1] in "12" else f"(tree {ROUND2_BASE}, i.e. after the first batch of fix: commits)"),
        "change": NEEDS.get(sid, ("", ""))[0], "needs_to_manifest": NEEDS.get(sid, ("", ""))[1],
        "files": files,
        "verified_on_original_tree": rd("VERIFY.txt"),
        "verified_on_head": rd("verify_head.txt"),
        "what_i_ran": (["verified in the agent's scratch worktree at 587164b by me: demo passes without the change and fails with it, full suite 194 passed with the change (private network namespace)",
                       "tools/verify_seeded_head.sh (the same against /repo HEAD with the patch as stored)",
                       "tools/seed_matrix.sh (git -C /repo apply; ./check <property> --tier quick; git -C /repo checkout -- .)"] if sid[-1] in "34" else ["tools/verify_seed.sh (scratch worktree at 2f5494e: demo without change, git apply, demo with change, full suite in a private network namespace)",
                       "tools/verify_seeded_head.sh (same against /repo HEAD with the rebased patch)",
                       "tools/seed_matrix.sh (git -C /repo apply; ./check <property> --tier quick; git -C /repo checkout -- .)"]),
        "check_result": det,
        "detected": " exit=1 " in (" " + det + " "),
        "note": STATUS.get(sid),
    }
    json.dump(meta, open(f"{d}/meta.json", "w"), indent=1)
print("meta written")
