#!/bin/sh
# usage: PAIRS="C01-ma:C12 C01-mb:C03" JOBS=4 tools/cross.sh  - runs the quick check of another property against a seeded change (scratch worktrees)
cd /verif
mkdir -p /tmp/cx; git -C /repo worktree prune
for P in $PAIRS; do echo $P; done | xargs -P ${JOBS:-4} -I{} sh -c '
  P={}; ID=${P%%:*}; PROP=${P##*:}; W=/tmp/cx/$ID-$PROP
  rm -rf $W; git -C /repo worktree add -q --detach $W HEAD 2>/dev/null || { echo "$P WORKTREE-FAILED"; exit 0; }
  git -C $W apply /verif/seeded/$ID/patch.diff 2>/dev/null || { echo "$P PATCH-DOES-NOT-APPLY"; git -C /repo worktree remove --force $W; exit 0; }
  cd /verif; ./check $PROP --tier quick --repo $W > /tmp/cx/$ID-$PROP.out 2>&1; RC=$?
  git -C /repo worktree remove --force $W
  LABELS=$(grep "^  H" /tmp/cx/$ID-$PROP.out | sed -E "s/^  (H[^:]*): .([^'"'"']*).*/\1:\2/" | sort -u | head -4 | tr "\n" " ")
  echo "$ID by $PROP exit=$RC $LABELS"'
rm -rf /tmp/cx /var/tmp/repid-verif-evidence-other; git -C /repo worktree prune
