#!/bin/sh
# usage: tools_try_seed.sh <patch.diff> <ID> [tier]  -- applies a seeded change to /repo, runs the check, undoes it
P=$1; ID=$2; T=${3:-quick}; [ -f "$P" ] || P=/verif/seeded/$1/patch.diff
git -C /repo apply "$P" || { echo "PATCH DOES NOT APPLY"; exit 9; }
/verif/check "$ID" --tier "$T" > /tmp/seed_try.out 2>&1; RC=$?
tail -${LINES_OUT:-8} /tmp/seed_try.out
echo "exit=$RC"
git -C /repo checkout -- . ; git -C /repo clean -fdq repid
git -C /repo status --short | head -3
