"""symbolic run with all inputs pinned to a model: shows divergences between symbolic and concrete execution"""
import sys, json, importlib
import z3
from engine import env, symx
env.use_repo(); env.install(); env.silence_asyncio()
modname, fn = sys.argv[1].split(":")
mod = importlib.import_module(modname)
model = json.loads(sys.argv[2])
kw = {}
for a in sys.argv[3:]:
    k, v = a.split("=", 1); kw[k] = json.loads(v)
def scen(S):
    oi, ob, orl = S.int, S.bool, S.real
    def pin(v, name):
        if name in model:
            val = model[name]
            if isinstance(val, list): val = symx.Fraction(val[0], val[1])
            S.assume(v == val)
        return v
    S.int = lambda name, lo=None, hi=None: pin(oi(name, lo, hi), name)
    S.bool = lambda name: pin(ob(name), name)
    S.real = lambda name, lo=None, hi=None, lo_strict=False: pin(orl(name, lo, hi, lo_strict), name)
    oc = S.check
    def chk(label, cond, info=None):
        ok = oc(label, cond, info); print(("ok  " if ok else "FAIL"), label, "" if ok else info); return ok
    S.check = chk
    getattr(mod, fn)(S, **kw)
ex = symx.explore(scen)
print("paths", ex.paths, "viol", [(v['label'], v['info']) for v in ex.violations], ex.inconclusive, ex.errors)
