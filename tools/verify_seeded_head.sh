#!/bin/sh
# Re-verifies one seeded change against /repo's current HEAD in a scratch worktree: writes seeded/<id>/verify_head.txt
D=/verif/seeded/$1; W=/tmp/seedverify_head/$1
rm -rf "$W"; mkdir -p /tmp/seedverify_head
git -C /repo worktree add -q --detach "$W" HEAD || exit 9
cd "$W" || exit 9
DEMO=$(ls "$D"/demo_test.py "$D"/demo.py 2>/dev/null | head -1)
run_demo() { case "$DEMO" in *demo_test.py) /venv/bin/python -m pytest -q -p no:cacheprovider --timeout=600 "$DEMO" >/tmp/seedverify_head/$1.demo.$2 2>&1;; *) /venv/bin/python "$DEMO" >/tmp/seedverify_head/$1.demo.$2 2>&1;; esac; echo $?; }
A=$(run_demo $1 without)
git apply "$D/patch.diff" || { echo "patch does not apply at HEAD" > "$D/verify_head.txt"; cd /; git -C /repo worktree remove --force "$W"; exit 9; }
B=$(run_demo $1 with)
unshare -n sh -c "ip link set lo up; /venv/bin/python -m pytest -q -p no:cacheprovider --timeout=900 --continue-on-collection-errors --deselect tests/test_hypothesis.py::test_job_creation --ignore=tests/integration" > /tmp/seedverify_head/$1.suite 2>&1
C=$?; SUM=$(tail -1 /tmp/seedverify_head/$1.suite)
cd /; git -C /repo worktree remove --force "$W"
echo "HEAD=$(git -C /repo rev-parse --short HEAD) demo_without_change_exit=$A demo_with_change_exit=$B suite_with_change_exit=$C suite=[$SUM]" | tee "$D/verify_head.txt"
