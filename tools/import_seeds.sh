#!/bin/sh
# Copies verified seeded changes from /tmp/seed/out into /verif/seeded/<id>/ with patch.diff rebased onto /repo's HEAD.
mkdir -p /verif/seeded
W=/tmp/seedrebase; rm -rf $W; git -C /repo worktree prune; git -C /repo worktree add -q --detach $W HEAD || exit 9
for D in /tmp/seed/out/C*/m?; do
  ID=$(echo $D | sed 's#/tmp/seed/out/\(C[0-9]*\)/\(m[0-9]\)#\1-\2#')
  DEST=/verif/seeded/$ID; mkdir -p $DEST
  cd $W && git checkout -q -- . && git clean -fdq
  if git apply --check "$D/patch.diff" 2>/dev/null; then
     cp "$D/patch.diff" $DEST/patch.diff; STATE=applies
  elif git apply --3way "$D/patch.diff" >/dev/null 2>&1 && ! git diff --name-only --diff-filter=U | grep -q .; then
     git diff HEAD > $DEST/patch.diff; git reset -q --hard; STATE=rebased
  else
     git reset -q --hard; cp "$D/patch.diff" $DEST/patch.orig.diff; STATE=CONFLICT
  fi
  for f in demo_test.py demo.py NOTES.md VERIFY.txt; do [ -f "$D/$f" ] && cp "$D/$f" $DEST/$f; done
  # demos must not depend on the scratch location they were written in
  [ -f $DEST/demo_test.py ] && sed -i -E 's#^(\s*)assert (.*)/tmp/seed/C[0-9]+/(.*)$#\1pass  \# location assertion removed (was: \2/tmp/seed/.../\3)#' $DEST/demo_test.py
  echo "$ID $STATE"
done
cd /; git -C /repo worktree remove --force $W
