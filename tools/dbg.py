"""usage: tools/dbg.py harness.c02:h02_worker '{"behaviour":5,...}' [kw=val]  -- concrete run with check tracing"""
import sys, json, importlib
from engine import env, symx
env.use_repo(); env.install(); env.silence_asyncio()
modname, fn = sys.argv[1].split(":")
mod = importlib.import_module(modname)
model = json.loads(sys.argv[2]) if len(sys.argv) > 2 else {}
kw = {}
for a in sys.argv[3:]:
    k, v = a.split("=", 1); kw[k] = json.loads(v)
S = symx.Inputs(None, model)
oc = S.check
def chk(label, cond, info=None):
    ok = bool(cond); print(("ok  " if ok else "FAIL"), label, "" if ok else info); return oc(label, cond, info)
S.check = chk
try:
    getattr(mod, fn)(S, **kw)
except BaseException as e:
    import traceback; traceback.print_exc()
print("tags", S.tags, "covers", S.covers)
