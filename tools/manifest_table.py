CHECKS = {
    "C19": {
        "engine": "symx",
        "technique": "symbolic execution of default_retry_policy_factory, compute_next_execution_time and the four is_overdue properties with z3 (unbounded ints, uninterpreted 2**n with axioms)",
        "text": "C19: the three pure schedule functions are executed on symbolic integers (microseconds) for all parameters in the property's stated ranges.",
        "note": "datetime/timedelta modelled as exact integer microseconds (naive, TZ=UTC); 2**n uninterpreted with exact values up to 64 + monotonicity/doubling axioms; retry numbers/exponents bounded by 1e5; cron excluded (croniter absent)",
    },
}
CHECKS["C04"] = {
    "engine": "symx+vloop",
    "technique": "symbolic execution (z3) of one real _Processor.process + in-memory requeue/consume step from an arbitrary retry state (inductive over the chain), of the Message retry API, and of a bounded Worker.run() chain on a virtual-time loop",
    "text": "C04: already_tried/max_amount/back-off/clock are unbounded symbolic integers, so one step covers every position of every retry chain; the chain harness is the reachability complement.",
    "note": "in-memory broker; message state constructed directly in the step harness; Redis/RabbitMQ delivery times are covered under C05; cron excluded",
}
CHECKS["C06"] = {
    "engine": "symx+vloop",
    "technique": "symbolic execution (z3) of report_to_broker/_prepare_reschedule/compute_next_execution_time from an arbitrary recurring-message state plus a 3-4 iteration chain from a fresh Job with symbolic finish instants",
    "text": "C06: period, time base, previous slot, finish instant and retry state are symbolic; the successor's count, counter, TTL base and slot arithmetic are asserted for all of them.",
    "note": "in-memory broker, pinned symbolic clock; first-slot index j*period is nonlinear integer arithmetic (z3 decides it here; unknown would be reported as inconclusive); cron excluded",
}
CHECKS["C12"] = {
    "engine": "symx+vloop",
    "technique": "symbolic execution (z3) of the consumers' expiry decision with symbolic timestamp, ttl, due time and delivery instant (including exactly at expiry), after retry and after reschedule",
    "text": "C12: handed-over => not expired, withheld => expired and retrievable from the dead category, for all instants.",
    "note": "in-memory consumer in this entry; Redis/RabbitMQ consumers use fake servers (see evidence); expiry evaluated at the consumer's look-up instant",
}
CHECKS["C02"] = {
    "engine": "symx+vloop",
    "technique": "symbolic execution (z3) of the report_to_broker ladder from an arbitrary retry state and of a full Worker.run() over a behaviour selector (return/raise/timeout with symbolic duration/conversion failure/dependency failure/eager responses x extras) with symbolic retry counters",
    "text": "C02: the per-delivery broker actions recorded at the broker boundary are compared with the single action the statement prescribes, for all retry states and both converters.",
    "note": "in-memory brokers on a virtual-time loop; thread pools run inline (zero virtual time); behaviours are a finite selector enumerated by the solver; BaseExceptions other than the eager-response signal, failures inside broker calls and cron are outside the claim",
}
CHECKS["C09"] = {
    "engine": "symx+vloop",
    "technique": "symbolic execution of Worker.run() on a virtual-time asyncio loop whose actor durations are symbolic reals: every z3-decided ordering class of timer events is explored; tasks_limit symbolic",
    "text": "C09: a monitor inside the actor body asserts running <= tasks_limit at every entry; completion, makespan and pause/unpause pairing are asserted per ordering class.",
    "note": "in-memory consumer (1 ms polling executed concretely); 2-3 jobs, 1-2 queues, durations in (0, 3 ms]; RabbitMQ prefetch and real thread pools are outside the claim",
}
CHECKS["C10"] = {
    "engine": "symx+vloop",
    "technique": "symbolic execution of Worker.run() on a virtual-time loop with symbolic real durations and symbolic tasks_limit; messages_limit and backlog enumerated by the solver",
    "text": "C10: actor starts <= M, run() returns, the other messages are still waiting with unchanged parameters; plus the run-on-enqueue plugin with M=1.",
    "note": "in-memory broker; M in [1,2(3)], backlog M+1..M+2, 1-2 queues, durations zero or (0, 3 ms]",
}
CHECKS["C03"] = {
    "engine": "symx+vloop",
    "technique": "symbolic execution of Worker.run() on a virtual-time loop with the stop signal injected at every event-loop step (solver-enumerated crash point) and a symbolic real graceful period",
    "text": "C03: after return and loop idle every message is in exactly one place, returned copies are unchanged, nothing is left in flight, and run() returns within graceful + 6 s.",
    "note": "in-memory broker; crash point granularity = loop iteration; 1-2 messages, 4 actor kinds; Redis stop/death and the RabbitMQ stop scenario use fake servers (a message left unacknowledged on the fake channel counts as lost; redelivery on channel close is the server's); real process kill is outside the claim",
}
CHECKS["C05"] = {
    "engine": "symx+vloop+fakes",
    "technique": "symbolic execution (z3) of the enqueue/requeue/reject -> consume path of each broker with symbolic due time and clock (microseconds, every position in a clock second); in-memory polling on a virtual-time loop with symbolic real phases; RabbitMQ: the published expiration/routing",
    "text": "C05: delivered => now >= T - 1 ms; due for more than the latency bound => delivered; before that only the delayed category returns it.",
    "note": "Redis and AMQP servers are in-process fakes (fakes/); RabbitMQ server-side expiry is not modelled (client obligation only); 'millisecond resolution' read as 1 ms tolerance; on Redis the machine's UTC offset is a symbolic input (fixed offsets in quarter hours, no DST)",
}
CHECKS["C01"] = {
    "engine": "symx+vloop+fakes",
    "technique": "solver-enumerated bounded histories of broker-API calls (well-behavedness as the precondition) executed on the real in-memory, Redis and RabbitMQ broker classes (fake servers) and compared step by step with a reference lifecycle model; last call optionally cancelled after a solver-chosen number of loop steps",
    "text": "C01: after every call each message is in exactly the place the lifecycle model prescribes with its latest payload; a cancelled call leaves the broker as before or as after the complete call.",
    "note": "selectors are discrete, so the solver contributes enumeration and pruning only; one queue/topic/priority; history length 4 (quick) / 5 (thorough); Redis and AMQP servers are stubs; queue_flush/delete and id reuse are outside the claim; consumer-side dead-lettering of expired messages and the RabbitMQ worker stop are scenarios shared with C12 and C03",
}
CHECKS["C14"] = {
    "engine": "symx+vloop+fakes",
    "technique": "solver-enumerated call histories of two in-memory consumers, solver-enumerated server-side interleavings of two Redis clients' round trips (discrete scheduler), and two Worker.run() with symbolic real durations on one queue",
    "text": "C14: a message is delivered only if nobody holds it; a successful job is executed exactly once.",
    "note": "RabbitMQ exclusivity is the server's and is not modelled; Redis interleaving granularity = one round trip (MULTI/EXEC atomic); the Redis finish() scenario is shared with C01",
}
CHECKS["C15"] = {
    "engine": "symx+vloop+fakes",
    "technique": "solver-enumerated own/foreign backlog patterns and enqueue/consume/reject/ack interleavings on the real consumers (in-memory, Redis with fetch windows 2/3/10 on a fake server, RabbitMQ client on a fake server), FIFO oracle over 'waiting since'",
    "text": "C15: a fresh message is never delivered while an older waiting message (or one returned earlier) is still waiting; waiting messages are eventually delivered.",
    "note": "equal priority; RabbitMQ server ordering is part of the stub; delayed-category order is outside the claim",
}
CHECKS["C07"] = {
    "engine": "symx+strx+fpx+fakes",
    "technique": "symbolic execution (z3) of every encode()/decode() pair with all leaves symbolic through a sentinel-JSON stub; the duration fields additionally on bit-precise z3 FloatingPoint/BitVec proxies (any float kernel other than the lemma's is decided by a time-capped query); cvc5 string/regex reasoning over the AST-interpreted Redis/RabbitMQ key builders and parsers with names drawn from the validators' own regexes (unbounded length); an IEEE-754 error-model lemma in linear arithmetic for the float seconds round trip; end-to-end Job.enqueue -> consume on the three brokers with symbolic settings",
    "text": "C07: decode(encode(x)) == x leaf by leaf at microsecond precision; key encodings parse back, are injective and the topic prefix filter is exact for all valid names; the consumer receives the key, payload and parameters that enqueue returned.",
    "note": "argument VALUES are 11 concrete representatives (JSON text is a stub), so 'all argument values' is not claimed; float round trip of the unchanged kernel rests on lemma L-FP (error model; the bit-precise proof does not finish), other float kernels are decided bit-precisely or reported inconclusive; durations up to 100 julian years; isoformat round trip trusted; Redis/AMQP servers are fakes; cron, tz-aware datetimes, Config overrides outside the claim",
}
CHECKS["C08"] = {
    "engine": "symx",
    "technique": "solver-enumerated actor signatures (kinds, defaults, dependency flags; Python's validity rules as the precondition) and payload shapes, executed through the real converters and actor_run and compared with an inspect.Signature-based oracle",
    "text": "C08: each parameter gets its entry or its declared default, extras only reach a catch-all, a missing required argument fails the execution, the empty payload runs all-default actors, Basic and Pydantic agree, the encoded return value decodes back.",
    "note": "finite combinatorial space: the solver contributes enumeration only (no arithmetic); 1-3 parameters; payload values are small ints",
}
CHECKS["C13"] = {
    "engine": "symx+vloop",
    "technique": "symbolic execution (z3) of retry chains through _Processor.process with symbolic failure and store-fault flags, symbolic result ttl and clock gaps; Worker.run() with a failing store and a symbolic broker latency",
    "text": "C13: after each execution the bucket under the result id is that execution's outcome (flag, data/exception text and type, start <= finish, ttl) and Job.result returns it; nothing is written when disabled; a failing store leaves the disposition and the worker untouched.",
    "note": "in-memory bucket broker; the Redis bucket broker on a fake server with the machine's UTC offset as a symbolic input (fixed offsets, quarter hours); eager set_result/set_exception ordering is checked under C16",
}
CHECKS["C16"] = {
    "engine": "symx",
    "technique": "solver-enumerated scripts of message-API calls on Message / MessageDependency for every category with symbolic retry counters, compared with a handle automaton; eager-response scripts inside a real actor_run with the store position oracle",
    "text": "C16: exactly one terminal action succeeds, refused calls raise and touch nothing, category and budget refusals, callbacks in registration order with the store at the latest set_* position, rest of the body not run.",
    "note": "scripts of 3 (quick) / 4 (thorough) calls; recording in-memory broker; Redis across deliveries; Queue.get_messages() on an explicit connection; the worker-level eager-answer scenario is shared with C02",
}
CHECKS["C11"] = {
    "engine": "symx+vloop",
    "technique": "solver-enumerated router configurations (registrations over names/queues with overrides, inclusion, later registrations) compared with a union/last-wins oracle; Worker.run() on a virtual-time loop over solver-enumerated mixes of own and foreign messages in a shared queue",
    "text": "C11: actors and topics_by_queue are exactly the union with the last registration winning and no aliasing; foreign messages are never executed, disposed or altered and stay available; own jobs run exactly their actor once.",
    "note": "in-memory broker, Redis and RabbitMQ on fake servers (RabbitMQ: round-robin dispatch; basic.qos per channel or per consumer as two server models); the testing plugin's marker handling through a stand-in for request.node; Redis prefix filter exactness is proved under C07; discrete space (enumeration)",
}
CHECKS["C17"] = {
    "engine": "symx+vloop+fakes",
    "technique": "solver-enumerated (operation x call style x subscriber kind x second connection) combinations executed on the real wrappers and compared differentially with the same operation without subscribers; nested and failure/cancel sequences",
    "text": "C17: one before and (on success) one after signal with by-name arguments/result to the owning connection only, nothing for nested operations, result/exception/state unchanged by subscribers.",
    "note": "13 wrapped operations on in-memory, Redis and RabbitMQ brokers (fake servers); subscriber signatures with defaults, with plain required parameters, sync with a subset; discrete space",
}
CHECKS["C18"] = {
    "engine": "symx+vloop",
    "technique": "symbolic execution (z3): provider constants are symbolic integers, the actor's received keyword arguments are compared as SMT terms with an independent nested evaluation of the dependency graph; graph shape, sync/async flags, overrides and faults are solver-enumerated",
    "text": "C18: every dependency parameter equals its provider's value on its own resolved sub-dependencies for all provider constants; overrides replace everywhere; a provider failure follows the retry rules; unsupported declarations are rejected at declaration.",
    "note": "six graph shapes (depth <= 3, fan-out <= 2, shared node), up to 2 overrides; thread pools inline (process pools: pickling emulated); nine special cases incl. seven provider exception types and awaitable values",
}
CHECKS["C20"] = {
    "engine": "strx+symx+vloop",
    "technique": "cvc5 string reasoning over the AST-interpreted request parser for every decoded request string (independent SMT re-encoding of the request line as oracle); Worker.run() with the health server on a virtual-time loop with symbolic failure/probe instants and a solver-enumerated set of junk byte strings through the real protocol objects",
    "text": "C20: 200/503 iff GET on the endpoint else 404, exactly one response, Content-Length right, reported status never written by a request; 503 exactly for connections made after a consumer failed; port open exactly while the worker runs (also during graceful finishing); junk never disturbs processing.",
    "note": "real sockets replaced by a captured protocol factory; bytes.decode is a stub (raises or returns any string); the clause 'a well-formed request line is never dropped' is not decided symbolically (cvc5 answers unknown); it is exercised by concrete valid probes; junk inputs are 11 concrete byte strings (enumerated, not symbolic); RabbitMQ server-side consumer cancel on the fake server; `re` on symbolic text is unsupported (a handler using it makes the parse harnesses inconclusive)",
}
NOT_APPLICABLE = {}
