CHECKS = {
    "C19": {
        "engine": "symx",
        "technique": "symbolic execution of default_retry_policy_factory, compute_next_execution_time and the four is_overdue properties with z3 (unbounded ints, uninterpreted 2**n with axioms)",
        "text": "C19: the three pure schedule functions are executed on symbolic integers (microseconds) for all parameters in the property's stated ranges.",
        "note": "datetime/timedelta modelled as exact integer microseconds (naive, TZ=UTC); 2**n uninterpreted with exact values up to 64 + monotonicity/doubling axioms; retry numbers/exponents bounded by 1e5; cron excluded (croniter absent)",
    },
}
NOT_APPLICABLE = {}
