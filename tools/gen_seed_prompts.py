#!/usr/bin/env python3
"""Prepares a seeding round: one scratch worktree of /repo HEAD and one PROMPT.txt per property.

usage: gen_seed_prompts.py <round-dir under /tmp> <first-label> <second-label> [ID ...]
Each sub-agent gets only the property text (statement + quantifier), its worktree and one-line
descriptions of the earlier seeded changes for that property (so that it uses another mechanism).
Nothing about the checks in /verif is passed on.
"""
import glob, json, os, subprocess, sys
root, a, b = sys.argv[1], sys.argv[2], sys.argv[3]
ids = sys.argv[4:] or [f"C{i:02d}" for i in range(1, 21)]
props = {}
for l in open('/verif/properties.jsonl'):
    p = json.loads(l); props[p['id']] = p
prev = {}
for f in sorted(glob.glob('/verif/seeded/*/meta.json')):
    m = json.load(open(f)); prev.setdefault(m['property'], []).append(f"- {', '.join(m['files'])}: {m['change']}")
tmpl = open('/verif/tools/seed_prompt.tmpl').read()
os.makedirs(f"{root}/out", exist_ok=True)
subprocess.run(["git", "-C", "/repo", "worktree", "prune"])
for pid in ids:
    subprocess.run(["git", "-C", "/repo", "worktree", "add", "-q", "--detach", f"{root}/{pid}", "HEAD"], check=True)
    os.makedirs(f"{root}/out/{pid}", exist_ok=True)
    p = props[pid]
    text = f"Statement: {p['statement']}\n\nQuantified over: {p['quantifier']['text']}"
    t = tmpl.replace('/tmp/seed/', root.rstrip('/') + '/').replace('@ID@', pid).replace('@PROP@', text)
    t = t.replace("(call them m1 and m2)", f"(call them {a} and {b})")
    t = t.replace("For m1:", f"For {a}:").replace("/m1/", f"/{a}/").replace("repeat for m2 under", f"repeat for {b} under")
    t = t.replace("/m2/", f"/{b}/").replace("for each of m1/m2", f"for each of {a}/{b}")
    t = t.replace("(on the unchanged tree this gives 194 passed;",
                  "(run it inside a private network namespace, because a few tests bind fixed local ports and other processes on this machine use them:\n"
                  f"        cd {root}/{pid} && unshare -n sh -c \"ip link set lo up; /venv/bin/python -m pytest -q -p no:cacheprovider --timeout=900 --continue-on-collection-errors\"\n"
                  "      on the unchanged tree this gives 194 passed;")
    t += ("\n\nIMPORTANT - earlier seeded changes for this property already exist; yours must use DIFFERENT mechanisms "
          "(different function and different idea), do not repeat or vary these:\n" + "\n".join(prev.get(pid, [])) +
          "\nLook for less obvious places: other brokers (Redis/RabbitMQ code paths exercised through your own in-process fakes), "
          "the message/dependency API, the runner/worker shutdown sequence, data encoding, boundary arithmetic, ordering, error paths, "
          "code shared between features, rarely used options and categories, interaction of two features.\n"
          "Your demonstration must not assert where repid is imported from (no path assertions); it must pass on the unchanged tree at the worktree's HEAD.\n")
    open(f"{root}/out/{pid}/PROMPT.txt", "w").write(t)
print("prepared", len(ids), "worktrees under", root)
