#!/bin/sh
# usage: import_round.sh /tmp/seed3  - copies the sub-agents' outputs <root>/out/Cxx/mN into /verif/seeded/Cxx-mN/
# (patch.diff, demo, NOTES.md) when the patch applies to /repo's HEAD; verification is done by verify_seeded_head.sh
ROOT=${1:?round dir}
for D in $ROOT/out/C*/m?; do
  [ -f "$D/patch.diff" ] || continue
  ID=$(basename $(dirname $D))-$(basename $D)
  DEST=/verif/seeded/$ID; mkdir -p $DEST
  if git -C /repo apply --check "$D/patch.diff" 2>/dev/null; then STATE=applies; else STATE=DOES-NOT-APPLY; fi
  cp "$D/patch.diff" $DEST/patch.diff
  for f in demo_test.py demo.py NOTES.md; do [ -f "$D/$f" ] && cp "$D/$f" $DEST/$f; done
  for f in $DEST/demo_test.py $DEST/demo.py; do
    [ -f $f ] && sed -i -E "s#^(\s*)assert (.*)$ROOT/C[0-9]+(.*)\$#\1pass  \# location assertion removed#" $f
  done
  echo "$ID $STATE"
done
