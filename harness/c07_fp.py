"""C07, bit-precise part: the duration fields through the real encode()/decode() on IEEE-754/BV terms (engine/fpx.py).

Per duration field: N = a 64-bit microsecond count in [0, 100 julian years]; the real class is built with a proxy duration,
its real encode() runs (total_seconds() -> correctly rounded double -> JSON number through a sentinel), its real decode()
runs on the proxies.  If the decoded duration was built exactly as timedelta(seconds=float(<number>)) the kernel is the one
lemma L-FP is about and nothing more is asked; any other float kernel is decided by the solver bit-precisely.
"""
from __future__ import annotations

import sys
import time

import z3

HUNDRED_Y = 36525 * 86400 * 10**6


def _fields():
    import repid.data._buckets as B
    import repid.data._parameters as P
    import datetime as dt
    ts = dt.datetime(2024, 5, 6, 7, 8, 9, 123456)
    return [
        ("Parameters.execution_timeout", P.Parameters, lambda d: P.Parameters(execution_timeout=d, timestamp=ts), lambda o: o.execution_timeout),
        ("Parameters.ttl", P.Parameters, lambda d: P.Parameters(ttl=d, timestamp=ts), lambda o: o.ttl),
        ("Parameters.result.ttl", P.Parameters, lambda d: P.Parameters(result=P.ResultProperties(id_="r1", ttl=d), timestamp=ts),
         lambda o: o.result.ttl),
        ("Parameters.delay.defer_by", P.Parameters, lambda d: P.Parameters(delay=P.DelayProperties(defer_by=d), timestamp=ts),
         lambda o: o.delay.defer_by),
        ("ResultProperties.ttl", P.ResultProperties, lambda d: P.ResultProperties(id_="r1", ttl=d), lambda o: o.ttl),
        ("DelayProperties.defer_by", P.DelayProperties, lambda d: P.DelayProperties(defer_by=d), lambda o: o.defer_by),
        ("ArgsBucket.ttl", B.ArgsBucket, lambda d: B.ArgsBucket(data="x", timestamp=ts, ttl=d), lambda o: o.ttl),
        ("ResultBucket.ttl", B.ResultBucket, lambda d: B.ResultBucket(data="x", started_when=1, finished_when=2, timestamp=ts, ttl=d),
         lambda o: o.ttl),
    ]


class _Patched:
    """Swap symx's stand-ins for the fpx ones in every module of the package under test, for the duration of the run."""

    def __enter__(self):
        from engine import env, fpx, vtime
        from engine.symx import sym_float, sym_int
        import repid._utils.json_encoder as je
        env.install()
        self.saved = []
        swap = {id(vtime.VTimedelta): fpx.FTimedelta, id(sym_float): fpx.fp_float, id(sym_int): fpx.fp_int}
        for name, mod in list(sys.modules.items()):
            if mod is None or not (name == "repid" or name.startswith("repid.")):
                continue
            for attr, val in list(vars(mod).items()):
                if id(val) in swap:
                    self.saved.append((mod, attr, val))
                    setattr(mod, attr, swap[id(val)])
        self.je = je
        self.orig_default = je._RepidJSONEncoder.default
        orig = self.orig_default

        def default(enc, obj):
            from engine.symx import Ctx
            if isinstance(obj, (fpx.BFloat, fpx.BInt)):
                return Ctx.cur.sentinel_str(obj)
            return orig(enc, obj)

        je._RepidJSONEncoder.default = default
        return self

    def __exit__(self, *a):
        for mod, attr, val in self.saved:
            setattr(mod, attr, val)
        self.je._RepidJSONEncoder.default = self.orig_default
        return False


def _one_field(label, cls, build, get):
    """-> dict(kind= 'lemma-shape' | 'query' | 'unsupported' | 'constant', ...) with z3 terms for 'query'."""
    from engine import fpx, symx
    n = z3.BitVec("N", fpx.W)
    ctx = symx.Ctx([])
    symx.Ctx.cur = ctx
    try:
        raw_secs_marker = []
        d = fpx.BTimedelta(fpx.BInt(n))
        # total_seconds() of the proxy yields the double that the JSON number stands for: mark it `raw`
        orig_ts = fpx.BTimedelta.total_seconds

        def total_seconds(self):
            v = orig_ts(self)
            v.raw = True
            raw_secs_marker.append(v)
            return v

        fpx.BTimedelta.total_seconds = total_seconds
        try:
            obj = build(d)
            text = obj.encode()
            back = cls.decode(text)
            got = get(back)
        finally:
            fpx.BTimedelta.total_seconds = orig_ts
    except fpx.Unsupported as e:
        return {"kind": "unsupported", "why": str(e)}
    except Exception as e:  # noqa: BLE001
        return {"kind": "unsupported", "why": f"{type(e).__name__}: {e}"}
    finally:
        symx.Ctx.cur = None
    if isinstance(got, fpx.BTimedelta):
        if got.lemma_shape:
            return {"kind": "lemma-shape"}
        return {"kind": "query", "n": n, "got": got.us.t}
    return {"kind": "constant", "value": repr(got)}


def _decide(label, timeout_s):
    """Runs in a forked worker: regenerate the terms for one field and solve.  Returns a plain dict."""
    from engine import fpx
    field = next(f for f in _fields() if f[0] == label)
    with _Patched():
        r = _one_field(*field)
    if r["kind"] != "query":
        return r
    n = r["n"]
    verdict, model, dt = fpx.solve([z3.ULE(n, z3.BitVecVal(HUNDRED_Y, fpx.W)), r["got"] != n], timeout_s)
    out = {"kind": "query", "verdict": verdict, "seconds": round(dt, 2)}
    if model is not None:
        out["N"] = model[n].as_long() if model[n] is not None else 0
        out["decoded"] = model.eval(r["got"], model_completion=True).as_signed_long()
    return out


def _twin(timeout_s):
    """Non-vacuity twin: the same proxies on a kernel that truncates (int(fraction * 1e6)) must yield a counterexample."""
    from engine import fpx
    n = z3.BitVec("N", fpx.W)
    secs = fpx.BTimedelta(fpx.BInt(n)).total_seconds()
    whole, frac = divmod(secs, 1)
    got = fpx.delta_new(seconds=fpx.fp_int(whole), microseconds=fpx.fp_int(frac * 1_000_000))
    verdict, model, dt = fpx.solve([z3.ULE(n, z3.BitVecVal(HUNDRED_Y, fpx.W)), got != n], timeout_s)
    return {"verdict": verdict, "seconds": round(dt, 2), "N": model[n].as_long() if model is not None else None}


def replay(label, model):
    """Concrete: the real classes with a real timedelta of N microseconds."""
    import datetime as dt
    field = label.split(":", 1)[1]
    _, cls, build, get = next(f for f in _fields() if f[0] == field)
    d = dt.timedelta(microseconds=int(model["N"]))
    back = get(cls.decode(build(d).encode()))
    if back != d:
        return [{"label": label, "info": f"{field}: {d!r} ({d.total_seconds()!r} s on the wire) decoded as {back!r}"}]
    return []


def run(tier):
    import multiprocessing as mp
    from engine import fpx
    cap = 60 if tier == "quick" else 300
    t0 = time.perf_counter()
    errors = [f"fpx self-test: model of the CPython constructor differs from the real one: {b}" for b in fpx.selftest()]
    labels = [f[0] for f in _fields()]
    ctx = mp.get_context("fork")
    with ctx.Pool(min(8, len(labels))) as pool:
        results = pool.starmap(_decide, [(lb, cap) for lb in labels])
        twin = pool.apply(_twin, (cap,)) if tier != "quick" else None
    viol, inconclusive, samples, covers = [], [], [], set()
    queries = 0
    solver_s = 0.0
    for lb, r in zip(labels, results):
        samples.append({"decisions": [], "path_condition_tail": None, "notes": {"field": lb, **{k: v for k, v in r.items() if k not in ("n", "got")}}})
        if r["kind"] == "lemma-shape":
            covers.add("lemma-shape")
        elif r["kind"] == "query":
            queries += 1
            solver_s += r["seconds"]
            covers.add("bit-precise-query")
            if r["verdict"] == "sat":
                viol.append({"label": "decode-encode-identity:" + lb, "model": {"N": r["N"]}, "tags": {"field": lb},
                             "info": f"{lb}: {r['N']} µs decodes as {r['decoded']} µs (bit-precise model of the float kernel)"})
            elif r["verdict"] != "unsat":
                inconclusive.append(f"{lb}: bit-precise query returned {r['verdict']} after {r['seconds']} s")
        elif r["kind"] == "constant":
            viol.append({"label": "decode-encode-identity:" + lb, "model": {"N": 1}, "tags": {"field": lb},
                         "info": f"{lb}: decoded value does not depend on the encoded one: {r['value']}"})
        else:
            inconclusive.append(f"{lb}: float kernel outside the proxies: {r['why']}")
    if twin is not None:
        queries += 1
        solver_s += twin["seconds"]
        samples.append({"decisions": [], "path_condition_tail": None, "notes": {"twin": "truncating kernel must have a counterexample", **twin}})
        if twin["verdict"] != "sat":
            errors.append(f"non-vacuity twin did not come back sat: {twin}")
        else:
            covers.add("twin-sat")
    return {"engine": "fpx (real encode/decode on z3 %s FloatingPoint/BitVec proxies)" % z3.get_version_string(),
            "paths": len(labels), "nontrivial": queries, "queries": queries, "solver_s": solver_s,
            "exhaustive": not inconclusive, "covers": sorted(covers), "checks": len(labels), "samples": samples,
            "functions_executed": ["data/_parameters.py:Parameters.encode", "data/_parameters.py:Parameters.decode",
                                   "data/_buckets.py:ArgsBucket.decode", "data/_buckets.py:ResultBucket.decode",
                                   "_utils/json_encoder.py:_RepidJSONEncoder.default"],
            "inconclusive": inconclusive, "errors": errors, "violations_raw": viol, "wall_s": round(time.perf_counter() - t0, 2)}


def rep(v):
    try:
        failed = replay(v["label"], v["model"])
    except Exception as e:  # noqa: BLE001
        failed = [{"label": "unexpected-exception:" + type(e).__name__, "info": repr(e)}]
    return {"reproduced": any(f["label"] == v["label"] for f in failed), "failed": failed}
