"""Shared scaffolding for harnesses: virtual loop runner, recording brokers, observations."""
from __future__ import annotations

import asyncio
import contextvars

from engine import vloop, vtime
from engine.vtime import PinnedClock, VTimedelta, real_timedelta

SEC = 1_000_000
Y1970, Y2100 = 0, 4_102_444_800 * SEC
Y2000, Y2050 = 946_684_800 * SEC, 2_524_608_000 * SEC
T0 = vtime.EPOCH_US  # 2024-01-01 in µs


def run_async(main, clock=None):
    """Run `main(loop)` on a fresh virtual loop.  clock=None -> LoopClock (EPOCH + loop time)."""
    if clock is None:
        return vloop.run(main, clock=True)
    prev = vtime.current_clock()
    vtime.set_clock(clock)
    try:
        return vloop.run(main, clock=False)
    finally:
        vtime.set_clock(prev)


_INSIDE = contextvars.ContextVar("verif_inside_recorded_call", default=False)


class Recorder:
    """Records top-level broker calls by wrapping the (already middleware-wrapped) methods.
    Calls nested inside a recorded call (requeue -> ack + enqueue) are passed through."""

    METHODS = ("enqueue", "ack", "nack", "reject", "requeue")

    def __init__(self, broker, methods=METHODS):
        self.calls = []
        self.broker = broker
        for name in methods:
            orig = getattr(broker, name)
            setattr(broker, name, self._wrap(name, orig))

    def _wrap(self, name, orig):
        rec = self

        async def inner(*args, **kwargs):
            if _INSIDE.get():
                return await orig(*args, **kwargs)
            return await asyncio.create_task(outer(*args, **kwargs))

        async def outer(*args, **kwargs):
            _INSIDE.set(True)
            key = args[0] if args else kwargs.get("key")
            lp = asyncio.get_running_loop()
            entry = {"op": name, "id": getattr(key, "id_", None), "args": args, "kwargs": kwargs, "done": False,
                     "iter_start": getattr(lp, "iters", None), "iter_done": None}
            rec.calls.append(entry)
            r = await orig(*args, **kwargs)
            entry["done"] = True
            entry["iter_done"] = getattr(lp, "iters", None)
            return r

        inner.__name__ = name
        inner.fn = getattr(orig, "fn", orig)
        return inner

    def ops(self, id_=None):
        return [c["op"] for c in self.calls if id_ is None or c["id"] == id_]

    def params_of(self, call):
        a = call["args"]
        if len(a) >= 3:
            return a[2]
        return call["kwargs"].get("params")

    def payload_of(self, call):
        a = call["args"]
        if len(a) >= 2:
            return a[1]
        return call["kwargs"].get("payload", "")


def mem_places(broker, queue="default"):
    """id -> list of places for the in-memory broker."""
    q = broker.queues[queue]
    out = {}
    for m in list(q.simple._queue):
        out.setdefault(m.key.id_, []).append(("waiting", m))
    for t, ms in q.delayed.items():
        for m in ms:
            out.setdefault(m.key.id_, []).append(("delayed", m, t))
    for m in q.dead:
        out.setdefault(m.key.id_, []).append(("dead", m))
    for m in q.processing:
        out.setdefault(m.key.id_, []).append(("processing", m))
    return out


def place_names(places, id_):
    return sorted(p[0] for p in places.get(id_, []))


def mk_actor(fn, name="job", queue="default", retry_policy=None, converter=None):
    from repid.actor import ActorData
    from repid.converter import BasicConverter
    from repid.retry_policy import default_retry_policy_factory
    return ActorData(fn=fn, name=name, queue=queue,
                     retry_policy=retry_policy or default_retry_policy_factory(),
                     converter=(converter or BasicConverter)(fn))


async def try_consume(consumer, timeout=0.005):
    """consume() with a virtual-time timeout: returns the tuple or None."""
    try:
        return await asyncio.wait_for(consumer.consume(), timeout=timeout)
    except asyncio.TimeoutError:
        return None


def us_of(x):
    """datetime-like -> µs since 1970 (int | SNum)."""
    return vtime.dt_us(x)


def td_of(x):
    return vtime.td_us(x)


# ----------------------------------------------------------------------------------------
# Worker-level scaffolding


class World:
    """A connection (in-memory brokers, or the real Redis broker on a fake server) plus observation hooks."""

    def __init__(self, results=False, args_bucket=False, backend="mem"):
        from repid import Connection, InMemoryBucketBroker, InMemoryMessageBroker
        self.backend = backend
        if backend == "mem":
            self.broker = InMemoryMessageBroker()
        elif backend == "rabbit":
            from fakes import amqp as fa
            self.broker, self.ch, self.srv = fa.mk_broker()
        else:
            from fakes import redis as fr
            self.fr = fr
            self.srv = fr.FakeServer(clock=lambda: vtime.current_clock().time())
            self.broker = fr.mk_broker(self.srv)
        self.ab = InMemoryBucketBroker() if args_bucket else None
        self.rb = InMemoryBucketBroker(use_result_bucket=True) if results else None
        self.conn = Connection(self.broker, self.ab, self.rb)
        self.rec = None

    async def open(self, queues=("default",), record=True):
        if self.backend == "mem":
            await self.conn.connect()
        for q in queues:
            await self.broker.queue_declare(q)
        if record:
            self.rec = Recorder(self.broker)
        return self

    def places(self, queue="default"):
        if self.backend == "mem":
            return mem_places(self.broker, queue)
        from types import SimpleNamespace
        if self.backend == "rabbit":
            import json
            from repid.data._key import RoutingKey
            out = {}
            names = {queue: "waiting", queue + ":delayed": "delayed", queue + ":dead": "dead"}

            def mk(m):
                body = json.loads(m.body)
                return SimpleNamespace(key=RoutingKey(topic=m.props.headers["topic"], queue=queue, id_=m.props.message_id),
                                       payload=body["payload"], parameters=self.broker.PARAMETERS_CLASS.decode(body["parameters"]))
            for qn, q in self.srv.queues.items():
                if qn in names:
                    for m in q.ready:
                        out.setdefault(m.props.message_id, []).append((names[qn], mk(m)))
            for ch in self.srv.channels:
                for dtag, (q, m, ctag) in ch.unacked.items():
                    if q.name in names:
                        out.setdefault(m.props.message_id, []).append(("processing", mk(m)))
            return out
        from repid.data._key import RoutingKey
        out = {}
        for i, pls in self.fr.redis_places(self.srv, queue).items():
            for place, k, score in pls:
                topic = None
                for name, v in self.srv.kv.items():
                    if name.startswith(f"m:{queue}:") and name.endswith(":" + i):
                        topic = name.split(":")[3]
                        h = {kk.decode(): vv.decode() for kk, vv in v.items()}
                        msg = SimpleNamespace(key=RoutingKey(topic=topic, queue=queue, id_=i), payload=h.get("payload"),
                                              parameters=self.broker.PARAMETERS_CLASS.decode(h["parameters"]) if "parameters" in h else None)
                        out.setdefault(i, []).append((place, msg, score))
                        break
                else:
                    out.setdefault(i, []).append((place, None, score))
        return out


def observe_consumers(broker):
    """Wrap CONSUMER_CLASS so that pause/unpause/consume returns are logged."""
    log = []
    base = broker.CONSUMER_CLASS

    class Observed(base):
        async def pause(self):
            log.append(("pause", self.queue_name))
            return await super().pause()

        async def unpause(self):
            log.append(("unpause", self.queue_name))
            return await super().unpause()

        async def consume(self):
            r = await super().consume()
            log.append(("deliver", r[0].id_, self.queue_name))
            return r

        async def __anext__(self):
            r = await super().__anext__()
            log.append(("handed-to-runner", r[0].id_, self.queue_name))
            return r

    Observed.__name__ = base.__name__
    broker.CONSUMER_CLASS = Observed
    return log
