"""C20 - the health endpoint tells the truth and cannot be knocked over."""
import asyncio
from fractions import Fraction

from engine import strx
from engine.harness import Harness
from engine.strx import Interp, SBool, SBytes, SStr, lit
from engine.vloop import FakeTransport
from harness.common import World, mem_places, place_names, run_async


# ----------------------------------------------------------------------------------------
# H20-parse: the request parser on an arbitrary decoded request (strx + cvc5)


def _oracle_terms(M):
    """Independent SMT encoding of 'first line, split on spaces' used as the oracle."""
    sep = lit("\r\n\r\n")
    has_sep = f"(str.contains {M} {sep})"
    head = f"(str.substr {M} 0 (str.indexof {M} {sep} 0))"
    crlf = lit("\r\n")
    line = f"(ite (str.contains {head} {crlf}) (str.substr {head} 0 (str.indexof {head} {crlf} 0)) {head})"
    sp = lit(" ")
    i1 = f"(str.indexof {line} {sp} 0)"
    method = f"(str.substr {line} 0 {i1})"
    rest = f"(str.substr {line} (+ {i1} 1) (str.len {line}))"
    i2 = f"(str.indexof {rest} {sp} 0)"
    path = f"(str.substr {rest} 0 {i2})"
    # well-formedness as a regular language (easier for the solver than nested indexof):
    # the first line (no CRLF inside) has at least two spaces, and the request has a header terminator
    no_crlf = f"(re.comp (re.++ re.all (str.to_re {crlf}) re.all))"
    two_sp = f"(re.++ re.all (str.to_re {sp}) re.all (str.to_re {sp}) re.all)"
    wf_re = f"(re.++ (re.inter {no_crlf} {two_sp}) (str.to_re {crlf}) re.all)"
    well_formed = f"(and {has_sep} (str.in_re {M} {wf_re}))"
    return well_formed, method, path


def parse_scenario(P, status_name="OK", endpoint="/healthz", maxlen=None):
    from repid.health_check_server import HealthCheckStatus, _HttpServerProtocol
    status = HealthCheckStatus[status_name]
    proto = _HttpServerProtocol(endpoint_name=endpoint, status=status)
    tr = FakeTransport()
    proto.connection_made(tr)
    writes = []

    def t_write(I, data):
        writes.append(data)

    def t_close(I):
        tr.closed = True

    P.declare("decode_fails", "Bool")

    def decode(I, s, *a, **k):
        if P.decide(SBool("decode_fails")):
            raise UnicodeDecodeError("utf-8", b"", 0, 1, "invalid start byte")
        return SStr(s.t)

    M = P.input_str("request", maxlen=maxlen)
    I = Interp(P, stubs={"FakeTransport.write": t_write, "FakeTransport.close": t_close, "bytes.decode": decode})
    raised = None
    try:
        I.call(proto.data_received, SBytes(M.t))
    except (ValueError, UnicodeDecodeError) as e:
        raised = e
    P.notes["functions"] = sorted(set(I.functions))
    P.check("reported-status-never-changed", proto.status is status and proto.endpoint_name == endpoint)
    well_formed, method, path = _oracle_terms(M.t)
    if raised is not None:
        P.cover("rejected")
        # the call raised: asyncio closes only this connection.  It must not have answered first, and
        # a well-formed request line must never be rejected
        P.check("no-answer-before-raising", writes == [])
        # (that a well-formed request is never dropped this way is not decided here: cvc5 answers unknown on that
        # query; the valid probes of H20-status-* and H20-lifetime cover it concretely)
        return
    P.cover("answered")
    P.check("exactly-one-response-then-close", len(writes) == 1 and tr.closed)
    if len(writes) != 1:
        return
    resp = writes[0]
    if isinstance(resp, SStr):
        P.check("response-is-concrete-per-branch", False, info="response depends on request bytes")
        return
    text = resp.decode() if isinstance(resp, bytes) else resp
    head, _, body = text.partition("\r\n\r\n")
    lines = head.split("\r\n")
    code = lines[0].split(" ", 2)[1]
    clen = [ln.split(":")[1].strip() for ln in lines if ln.lower().startswith("content-length:")]
    P.check("content-length-matches-body", clen == [str(len(body))], info=text)
    P.check("well-formed-status-line", lines[0].startswith("HTTP/1.1 ") and code in ("200", "503", "404"))
    is_status = code == str(status.value)
    want = f"(and (= {method} {lit('GET')}) (= {path} {lit(endpoint)}))"
    P.check("status-code-iff-get-on-endpoint", f"(= {'true' if is_status else 'false'} {want})", info=f"answered {code}")
    if not is_status:
        P.check("otherwise-404", code == "404")
    P.cover("code-" + code)


ODD_ENDPOINT = "/health:live;v=1,ok@node%20a(1)+x"      # legal path characters that clients send unchanged


def _parse(status_name, maxlen=None, endpoint="/healthz"):
    def scen(P):
        return parse_scenario(P, status_name, endpoint=endpoint, maxlen=maxlen)
    scen.__name__ = "parse_" + status_name
    return scen


def replay_parse(status_name, endpoint="/healthz"):
    def rep(label, m):
        from repid.health_check_server import HealthCheckStatus, _HttpServerProtocol
        status = HealthCheckStatus[status_name]
        proto = _HttpServerProtocol(endpoint_name=endpoint, status=status)
        tr = FakeTransport()
        proto.connection_made(tr)
        req = m.get("request", "")
        failed = []
        try:
            proto.data_received(req.encode("utf-8", "surrogatepass"))
        except ValueError as e:
            head = req.split("\r\n\r\n")[0] if "\r\n\r\n" in req else None
            wf = head is not None and len(head.split("\r\n")[0].split(" ")) >= 3
            if wf:
                failed.append({"label": "only-malformed-requests-are-dropped", "info": str(e)})
            if tr.written:
                failed.append({"label": "no-answer-before-raising", "info": ""})
            return failed
        if len(tr.written) != 1 or not tr.closed:
            failed.append({"label": "exactly-one-response-then-close", "info": str(tr.written)})
            return failed
        text = tr.written[0].decode()
        head, _, body = text.partition("\r\n\r\n")
        code = head.split("\r\n")[0].split(" ", 2)[1]
        line = req.split("\r\n\r\n")[0].split("\r\n")[0].split(" ")
        want = line[0] == "GET" and line[1] == endpoint
        if (code == str(status.value)) != want:
            failed.append({"label": "status-code-iff-get-on-endpoint", "info": f"{req!r} answered {code}"})
        if code != str(status.value) and code != "404":
            failed.append({"label": "otherwise-404", "info": code})
        clen = [ln.split(":")[1].strip() for ln in head.split("\r\n") if ln.lower().startswith("content-length:")]
        if clen != [str(len(body))]:
            failed.append({"label": "content-length-matches-body", "info": text})
        if proto.status is not status or proto.endpoint_name != endpoint:
            failed.append({"label": "reported-status-never-changed", "info": f"endpoint {proto.endpoint_name!r}"})
        return failed
    return rep


# ----------------------------------------------------------------------------------------
# H20-status: a worker with the health server on the virtual loop (captured protocol factory)

JUNK = [b"", b"GET", b"GET /hea", b"\xff\xfe\xfd", b"\x16\x03\x01\x02\x00\x01\x00\x01\xfc\x03\x03", b"POST /healthz HTTP/1.1\r\n\r\n",
        b"GET /other HTTP/1.1\r\nHost: x\r\n\r\n", b"GET  /healthz HTTP/1.1\r\n\r\n", b"A" * 70000, b"\r\n\r\n", b"GET /healthz"]
VALID = b"GET /healthz HTTP/1.1\r\nHost: localhost\r\nAccept: */*\r\n\r\n"


def _probe(server, data_chunks):
    """One client connection: returns the status code answered, 'refused', or None (no answer)."""
    try:
        proto, tr = server.connect()
    except ConnectionRefusedError:
        return "refused"
    for chunk in data_chunks:
        if tr.closed:
            break
        try:
            proto.data_received(chunk)
        except Exception:  # noqa: BLE001  (asyncio logs it and closes this connection only)
            tr.close()
            break
    if not tr.written:
        return None
    return tr.written[0].split(b" ", 2)[1].decode()


def h20_status(S, junk=False):
    from repid import Job, Router, Worker
    from repid.converter import BasicConverter
    from repid.health_check_server import HealthCheckServerSettings

    fails = S.flag("a_consumer_fails")
    # the application may run with informational logging on
    info_logging = (not junk) and S.flag("repid_logger_at_info_level")
    if junk:
        # which bytes arrive is enumerated; instants are fixed
        t_fail = Fraction(5, 1000)
        n_conn = 3
        t_conn = [Fraction(2, 1000), Fraction(3, 1000), Fraction(7, 1000)]
        kinds = [S.pick(f"request_{i}", len(JUNK) + 1) for i in range(2)] + [len(JUNK)]   # the last one is always a valid probe
    else:
        # when things happen is symbolic; one valid probe
        t_fail = S.real("consumer_fails_at_s", Fraction(1, 1000), Fraction(6, 1000))
        n_conn = 1
        t_conn = [S.real("connect_at_s", 0, Fraction(8, 1000))]
        kinds = [len(JUNK)]
    d = Fraction(2, 1000)
    # the healthy queue's consumer may need a while to start (a subscription round trip), possibly until after the other one failed
    t_start = 0
    if fails and not junk and not info_logging:
        t_start = [0, t_fail / 2, t_fail + Fraction(1, 2000)][S.pick("healthy_consumer_is_up", 3)]      # at once / before / after the failure
    seen = []
    ran = []
    out = {}

    async def main(loop):
        w = World()
        await w.open(queues=("q_ok", "q_fail"), record=False)
        base = w.broker.CONSUMER_CLASS

        class Failing(base):
            async def start(self):
                if self.queue_name == "q_ok" and fails and not junk:
                    await asyncio.sleep(t_start)
                await super().start()

            async def consume(self):
                if self.queue_name == "q_fail" and fails:
                    delay = t_fail - loop.time()
                    if delay > 0:
                        await asyncio.sleep(delay)
                    raise RuntimeError("consumer connection lost")
                return await super().consume()

        w.broker.CONSUMER_CLASS = Failing
        r = Router()

        @r.actor(name="ok", queue="q_ok", converter=BasicConverter)
        async def ok(i: int):
            await asyncio.sleep(d)
            ran.append(i)

        @r.actor(name="bad", queue="q_fail", converter=BasicConverter)
        async def bad():
            ...

        worker = Worker(routers=[r], handle_signals=[], _connection=w.conn, graceful_shutdown_time=1.0,
                        run_health_check_server=True, tasks_limit=2,
                        health_check_server_settings=HealthCheckServerSettings(address="127.0.0.1", port=8099, endpoint_name="/healthz"))
        out["refused_before"] = not loop.servers
        task = asyncio.create_task(worker.run())

        async def client(i):
            await asyncio.sleep(t_conn[i])
            srv = loop.servers[0] if loop.servers else None
            if srv is None:
                seen.append((i, loop.time(), "refused"))
                return
            chunks = [VALID] if kinds[i] == len(JUNK) else [JUNK[kinds[i]]]
            seen.append((i, loop.time(), _probe(srv, chunks)))

        async def producer():
            for i in range(2):
                await Job("ok", queue="q_ok", args={"i": i}, id_=f"m{i}", _connection=w.conn).enqueue()
                await asyncio.sleep(Fraction(4, 1000))

        await asyncio.gather(producer(), *[client(i) for i in range(n_conn)])
        await asyncio.sleep(Fraction(25, 1000))
        out["still_running"] = not task.done()
        out["worker_error"] = repr(task.exception()) if task.done() and not task.cancelled() and task.exception() else None
        srv = loop.servers[0]
        out["serving_while_running"] = srv.is_serving()
        out["late_probe"] = _probe(srv, [VALID])
        task.cancel()
        await asyncio.gather(task, return_exceptions=True)
        out["server_log"] = srv.log
        out["after_probe"] = _probe(srv, [VALID])

    import logging
    lg = logging.getLogger("repid")
    saved_level = lg.level
    if info_logging:
        lg.setLevel(logging.INFO)
    try:
        run_async(main)
    finally:
        lg.setLevel(saved_level)
    S.cover("health-run")
    S.check("worker-undisturbed-by-requests", out["worker_error"] is None and sorted(ran) == [0, 1], info=f"ran={ran} err={out['worker_error']}")
    S.check("port-open-while-the-worker-runs", out["serving_while_running"] or not out["still_running"])
    for i, t, code in seen:
        valid = kinds[i] == len(JUNK)
        if valid:
            # the status reported is the one at the moment the connection is made
            if fails and t > t_fail:
                S.cover("saw-503")
                S.check("unhealthy-after-a-consumer-failed", code == "503", info=f"connected at {t}, consumer failed at {t_fail}: {code}")
            elif (not fails) or t < t_fail:
                S.cover("saw-200")
                S.check("healthy-while-all-consumers-alive", code == "200", info=f"connected at {t}: {code}")
        else:
            S.check("junk-gets-404-or-is-dropped", code in (None, "404"), info=f"{JUNK[kinds[i]][:30]!r}: {code}")
    want_late = "503" if fails else "200"
    S.check("status-stays-truthful-after-junk", out["late_probe"] == want_late, info=f"late probe answered {out['late_probe']}")


def h20_fail_near_stop(S):
    """A consumer fails within a few loop steps of the stop request while a job is still in flight:
    the endpoint must say 503 for as long as the worker keeps running."""
    import signal
    from repid import Job, Router, Worker
    from repid.converter import BasicConverter

    a = S.pick("failure_delayed_by_steps", 5)
    b = S.pick("signal_delayed_by_steps", 5)
    # ... or no consumer fails at all: a worker that is only finishing its jobs after a stop request is healthy
    no_failure = a == 0 and S.flag("no_consumer_fails")
    t_f = Fraction(5, 1000)
    out = {}

    async def main(loop):
        w = World()
        await w.open(queues=("q_ok", "q_fail"), record=False)
        base = w.broker.CONSUMER_CLASS

        class Failing(base):
            async def consume(self):
                if self.queue_name == "q_fail" and not no_failure:
                    await asyncio.sleep(t_f - loop.time())
                    for _ in range(a):
                        await asyncio.sleep(0)
                    raise RuntimeError("consumer connection lost")
                return await super().consume()

        w.broker.CONSUMER_CLASS = Failing
        r = Router()

        @r.actor(name="ok", queue="q_ok", converter=BasicConverter)
        async def ok():
            await asyncio.sleep(Fraction(60, 1000))      # in flight across the stop

        @r.actor(name="bad", queue="q_fail", converter=BasicConverter)
        async def bad():
            ...

        await Job("ok", queue="q_ok", id_="m1", _connection=w.conn).enqueue()
        worker = Worker(routers=[r], handle_signals=[signal.SIGTERM], _connection=w.conn, graceful_shutdown_time=1.0,
                        run_health_check_server=True)
        state = {}

        def hook(lp):
            if "at" not in state and lp.time() >= t_f:
                state["at"] = lp.iters
            if "at" in state and "fired" not in state and lp.iters >= state["at"] + b:
                state["fired"] = lp.fire_signal()

        loop.iter_hook = hook
        task = asyncio.create_task(worker.run())
        await asyncio.sleep(t_f + Fraction(20, 1000))
        loop.iter_hook = None
        out["running"] = not task.done()
        out["probe"] = _probe(loop.servers[0], [VALID]) if loop.servers else "refused"
        out["fired"] = state.get("fired")
        await asyncio.wait_for(task, timeout=10)

    run_async(main)
    S.cover("fail-near-stop")
    if no_failure:
        if out["running"] and out["fired"]:
            S.cover("probed-while-finishing-without-a-failure")
            S.check("healthy-while-all-consumers-alive", out["probe"] == "200",
                    info=f"stop request +{b} steps, no consumer failed, worker still finishing its job: endpoint answered {out['probe']}")
        return
    if a > b:
        # the stop request came first: the consumer is being cancelled, a later error of it is not "a consumer failed"
        # (the unchanged tree answers 200 when the error surfaces 3+ steps after the stop request; recorded in DESIGN.md §4.4)
        S.cover("failure-after-the-stop-request-not-asserted")
        return
    if out["running"]:
        S.cover("probed-while-finishing")
        S.check("unhealthy-after-a-consumer-failed", out["probe"] == "503",
                info=f"failure +{a} steps, signal +{b} steps: worker still running, endpoint answered {out['probe']}")


def h20_endpoint_bytes(S):
    """The configured endpoint, as a client writes it on the wire (UTF-8), answers 200; any other path 404 - also for
    endpoint settings outside ASCII."""
    from repid import Job, Router, Worker
    from repid.converter import BasicConverter
    from repid.health_check_server import HealthCheckServerSettings

    endpoint = ["/healthz", "/état", "/здоровье", "/health-✓"][S.pick("endpoint", 4)]     # (no spaces: a request line has none inside its target)
    address = ["127.0.0.1", "::1", "::", "0.0.0.0"][S.pick("address", 4)]
    bare = S.flag("request_without_header_fields")          # "GET /x HTTP/1.0" and an empty line: complete HTTP/1.0, what simple probes send
    S.tag("endpoint", endpoint)
    S.tag("address", address)
    out = {}

    async def main(loop):
        w = World()
        await w.open(record=False)
        r = Router()

        @r.actor(converter=BasicConverter)
        async def job():
            await asyncio.sleep(Fraction(50, 1000))

        await Job("job", id_="m1", _connection=w.conn).enqueue()
        worker = Worker(routers=[r], handle_signals=[], _connection=w.conn, graceful_shutdown_time=1.0, messages_limit=1, run_health_check_server=True,
                        health_check_server_settings=HealthCheckServerSettings(address=address, port=8099, endpoint_name=endpoint))
        task = asyncio.create_task(worker.run())
        await asyncio.sleep(Fraction(10, 1000))
        if task.done():
            out["own"] = out["other"] = f"worker stopped: {task.exception()!r}"
            return
        srv = loop.servers[0]
        if bare:
            req = lambda path: [b"GET " + path.encode("utf-8") + b" HTTP/1.0\r\n\r\n"]
        else:
            req = lambda path: [b"GET " + path.encode("utf-8") + b" HTTP/1.1\r\nHost: localhost\r\n\r\n"]
        out["own"] = _probe(srv, req(endpoint))
        out["other"] = _probe(srv, req(endpoint + "x"))
        await task

    run_async(main)
    S.cover("endpoint-bytes")
    S.check("configured-endpoint-answers-200", out["own"] == "200", info=f"GET {endpoint!r} (UTF-8 on the wire) answered {out['own']}")
    S.check("any-other-path-answers-404", out["other"] == "404", info=str(out["other"]))


def h20_lifetime(S):
    """The port is open exactly while the worker runs - also while in-flight actors finish gracefully."""
    from repid import Job, Router, Worker
    from repid.converter import BasicConverter

    d = S.real("job_duration_s", Fraction(1, 1000), Fraction(10, 1000))
    t_probe = S.real("probe_at_s", 0, Fraction(12, 1000))
    again = S.flag("second_run_of_the_same_worker")
    out = {}

    async def main(loop):
        w = World()
        await w.open(record=False)
        r = Router()

        @r.actor(converter=BasicConverter)
        async def job():
            await asyncio.sleep(d)

        await Job("job", id_="m1", _connection=w.conn).enqueue()
        worker = Worker(routers=[r], handle_signals=[], _connection=w.conn, graceful_shutdown_time=1.0, messages_limit=1,
                        run_health_check_server=True)
        task = asyncio.create_task(worker.run())
        await asyncio.sleep(t_probe)
        running = not task.done()
        srv = loop.servers[0] if loop.servers else None
        out["running"] = running
        out["probe"] = "refused" if srv is None else _probe(srv, [VALID])
        await task
        out["after"] = _probe(loop.servers[0], [VALID])
        out["log"] = [x[0] for x in loop.servers[0].log]
        if again:
            await Job("job", id_="m2", _connection=w.conn).enqueue()
            task2 = asyncio.create_task(worker.run())
            await asyncio.sleep(d / 2)
            out["second_running"] = not task2.done()
            out["second_probe"] = _probe(loop.servers[-1], [VALID]) if loop.servers else "refused"
            await task2
            out["second_after"] = _probe(loop.servers[-1], [VALID])

    run_async(main)
    S.cover("lifetime")
    if out["running"] and t_probe > 0:
        S.cover("probed-while-running")
        S.check("port-open-while-the-worker-runs", out["probe"] == "200", info=f"probe at {t_probe} (job takes {d}): {out['probe']}")
    S.check("port-closed-after-the-run", out["after"] == "refused")
    if again:
        S.cover("second-run")
        if out["second_running"]:
            S.check("port-open-while-the-worker-runs", out["second_probe"] == "200", info=f"second run of the same Worker: {out['second_probe']}")
        S.check("port-closed-after-the-run", out["second_after"] == "refused")
    S.check("server-started-then-closed-once", out["log"] == ["start_serving", "close", "wait_closed"], info=str(out["log"]))


def h20_rabbit_server_cancel(S):
    """RabbitMQ cancels a consumer server-side while the worker runs: either the consumer is subscribed again and keeps
    working (200), or it cannot be and has failed (503) - never a dead consumer behind a 200."""
    from repid import Job, Router, Worker
    from repid.converter import BasicConverter
    from repid.health_check_server import HealthCheckServerSettings

    deleted = S.flag("queue_deleted")
    t_cancel = S.real("server_cancels_at_s", Fraction(1, 1000), Fraction(300, 1000))
    ran = []
    out = {}

    async def main(loop):
        w = World(backend="rabbit")
        await w.open(queues=("alpha", "beta"), record=False)
        r = Router()

        @r.actor(name="a", queue="alpha", converter=BasicConverter)
        async def a(i: int):
            ran.append(("a", i))

        @r.actor(name="b", queue="beta", converter=BasicConverter)
        async def b(i: int):
            ran.append(("b", i))

        worker = Worker(routers=[r], handle_signals=[], _connection=w.conn, graceful_shutdown_time=1.0, run_health_check_server=True,
                        health_check_server_settings=HealthCheckServerSettings(address="127.0.0.1", port=8099, endpoint_name="/healthz"))
        task = asyncio.create_task(worker.run())
        await asyncio.sleep(t_cancel)
        out["before"] = _probe(loop.servers[0], [VALID]) if loop.servers else "refused"
        if deleted:
            w.srv.delete_queue("alpha")
        else:
            w.srv.cancel_consumers("alpha")
        await asyncio.sleep(Fraction(1, 2))
        if not deleted:
            await Job("a", queue="alpha", args={"i": 1}, id_="a1", _connection=w.conn).enqueue()
        await Job("b", queue="beta", args={"i": 2}, id_="b1", _connection=w.conn).enqueue()
        await asyncio.sleep(Fraction(1, 2))
        out["running"] = not task.done()
        out["after"] = _probe(loop.servers[0], [VALID]) if loop.servers else "refused"
        task.cancel()
        await asyncio.gather(task, return_exceptions=True)

    run_async(main)
    S.cover("server-side-cancel")
    S.check("healthy-while-all-consumers-alive", out["before"] == "200", info=str(out["before"]))
    S.check("other-queue-keeps-being-served", ("b", 2) in ran and out["running"], info=f"ran={ran} running={out['running']}")
    if deleted:
        S.check("unhealthy-after-a-consumer-failed", out["after"] == "503", info=f"queue deleted, its consumer cannot subscribe again: endpoint answered {out['after']}")
    else:
        alive = ("a", 1) in ran
        S.check("200-means-the-consumer-is-alive", (out["after"] == "200") == alive and (alive or out["after"] == "503"),
                info=f"after the server-side cancel a job for the queue was {'run' if alive else 'not run'}, endpoint answered {out['after']}")


HARNESSES = [
    strx.as_harness("H20-parse-ok", _parse("OK"), replay_parse("OK"),
                    bounds={"request": "every decoded string (unbounded length), or bytes that fail to decode", "status": "OK"},
                    covers=["answered", "rejected", "code-200", "code-404"],
                    stubs=["bytes.decode either raises or returns an arbitrary string; transport records writes"]),
    strx.as_harness("H20-parse-unhealthy", _parse("UNHEALTHY"), replay_parse("UNHEALTHY"),
                    bounds={"request": "every decoded string", "status": "UNHEALTHY"}, covers=["answered", "code-503", "code-404"]),
    strx.as_harness("H20-parse-odd-endpoint", _parse("OK", endpoint=ODD_ENDPOINT), replay_parse("OK", endpoint=ODD_ENDPOINT),
                    bounds={"request": "every decoded string", "status": "OK", "endpoint setting": ODD_ENDPOINT + " (path characters : ; = , @ % ( ) + that clients send as they are)"},
                    covers=["answered", "code-200", "code-404"]),
    Harness(name="H20-status-timing", scenario=h20_status, workers=16, budget_s=900,
            bounds={"consumer failure": "none, or at any real instant in [1, 6] ms", "probe": "one valid request at any real instant in [0, 8] ms",
                    "jobs": "2 jobs of 2 ms enqueued meanwhile"},
            functions=["health_check_server.py:HealthCheckServer.start", "_runner.py:_Runner.run_one_queue"],
            covers=["health-run", "saw-200", "saw-503"],
            stubs=["loop.create_server captured: a recording fake server hands out protocol objects from the real factory (no sockets)"]),
    Harness(name="H20-status-junk", scenario=h20_status, workers=16, budget_s=900,
            params={"quick": {"junk": True}, "thorough": {"junk": True}},
            bounds={"connections": "two connections each sending one of 11 junk byte strings (truncated, binary, TLS hello, wrong method/path, 70 kB, ...) or a valid request at 2 and 3 ms, "
                                   "then a valid probe at 7 ms; consumer failure none or at 5 ms"},
            functions=["health_check_server.py:HealthCheckServer.start", "health_check_server.py:_HttpServerProtocol.data_received", "_runner.py:_Runner.run_one_queue"],
            covers=["health-run", "saw-200", "saw-503"],
            stubs=["loop.create_server captured: a recording fake server hands out protocol objects from the real factory (no sockets)"]),
    Harness(name="H20-fail-near-stop", scenario=h20_fail_near_stop, workers=8,
            bounds={"consumer failure / stop signal": "each delayed by 0..4 event-loop steps relative to the same instant; asserted when the failure is not after the stop request", "in-flight job": "60 ms, graceful period 1 s"},
            functions=["_runner.py:_Runner.run_one_queue"], covers=["fail-near-stop", "probed-while-finishing"]),
    Harness(name="H20-rabbit-server-cancel", scenario=h20_rabbit_server_cancel, workers=4,
            bounds={"worker": "two RabbitMQ queues, health server on", "server-side cancel of one queue's consumer": "at any real time in [1 ms, 300 ms] after start",
                    "cause": "the queue was deleted (no new subscription possible) / the queue stays"},
            functions=["connections/rabbitmq/consumer.py:_RabbitConsumer.consume", "connections/rabbitmq/consumer.py:_RabbitConsumer.start",
                       "connections/rabbitmq/utils.py:_Consumers.pop", "_runner.py:_Runner.run_one_queue"],
            covers=["server-side-cancel"], stubs=["fake AMQP server: Basic.Cancel from the server, basic.consume on a missing queue fails like RabbitMQ (404 NOT_FOUND)"]),
    Harness(name="H20-endpoint-bytes", scenario=h20_endpoint_bytes,
            bounds={"endpoint setting": "four concrete values, three of them outside ASCII", "address setting": "127.0.0.1, ::1, ::, 0.0.0.0", "request": "with a Host header, or the request line alone", "request": "the endpoint in UTF-8 bytes; the endpoint plus one character"},
            functions=["health_check_server.py:_HttpServerProtocol.data_received"], covers=["endpoint-bytes"],
            stubs=["captured protocol factory; here the bytes are real (the strx parse harnesses treat bytes.decode as a stub)"]),
    Harness(name="H20-lifetime", scenario=h20_lifetime, workers=8,
            bounds={"job duration": "any real in [1, 10] ms", "probe": "at any real instant in [0, 12] ms", "worker": "messages_limit=1; optionally run a second time"},
            functions=["worker.py:Worker.run", "health_check_server.py:HealthCheckServer.stop"], covers=["lifetime", "probed-while-running"]),
]
ASSUMPTIONS = ["real sockets, packet fragmentation beyond 'each data_received call gets arbitrary bytes' and OS-level connection limits are outside the claim",
               "a data_received call that raises closes that connection only (asyncio's documented protocol error handling)"]
