"""C17 - middleware only observes."""
import asyncio
from fractions import Fraction

from engine.harness import Harness
from engine.vtime import PinnedClock, real_timedelta
from harness.common import T0, mem_places, mk_actor, run_async

OPS = ["enqueue", "consume", "ack", "nack", "reject", "requeue", "queue_declare", "queue_flush", "queue_delete",
       "store_bucket", "get_bucket", "delete_bucket", "actor_run"]
SUBS = ["async-all-args", "sync-subset", "raising", "slow", "extra-default-param", "none", "required-args"]


_SRV = {}      # id(message broker) -> (backend, fake server), for the Redis / RabbitMQ variants


async def _world(backend="mem"):
    from repid import Connection, InMemoryBucketBroker, InMemoryMessageBroker
    from repid.data._key import RoutingKey
    import repid.data._parameters as P
    from repid.connections.in_memory.utils import Message as MemMessage
    if backend != "mem":
        # the same starting state on the Redis / RabbitMQ broker classes over their fake servers
        if backend == "redis":
            from fakes import redis as fr
            srv = fr.FakeServer()
            mb = fr.mk_broker(srv)
        else:
            from fakes import amqp as fa
            mb, _ch, srv = fa.mk_broker()
        ab = InMemoryBucketBroker()
        rb = InMemoryBucketBroker(use_result_bucket=True)
        await mb.queue_declare("default")
        params = P.Parameters(timestamp=P.datetime.now())
        key = RoutingKey(topic="job", queue="default", id_="held")
        await mb.enqueue(key, "pl", params)
        c0 = mb.get_consumer("default", ["job"])
        if backend == "redis":
            c0.POLLING_WAIT = 0
            got = await c0.consume_or_none()
        else:
            await c0.start()
            got = await asyncio.wait_for(c0.consume(), timeout=1)
            await c0.finish()
        assert got is not None and got[0].id_ == "held"
        await mb.enqueue(RoutingKey(topic="job", queue="default", id_="waiting"), "pw", params)
        await ab.store_bucket("b1", ab.BUCKET_CLASS(data="x", timestamp=params.timestamp))
        conn = Connection(mb, ab, rb)
        _SRV[id(conn.message_broker)] = (backend, srv)
        return conn, key, params
    mb = InMemoryMessageBroker()
    ab = InMemoryBucketBroker()
    rb = InMemoryBucketBroker(use_result_bucket=True)
    conn = Connection(mb, ab, rb)
    await mb.queue_declare("default")
    key = RoutingKey(topic="job", queue="default", id_="held")
    params = P.Parameters(timestamp=P.datetime.now())
    mb.queues["default"].processing.add(MemMessage(key, "pl", params))
    mb.queues["default"].simple.put_nowait(MemMessage(RoutingKey(topic="job", queue="default", id_="waiting"), "pw", params))
    await ab.store_bucket("b1", ab.BUCKET_CLASS(data="x", timestamp=params.timestamp))
    return conn, key, params


def _state(conn):
    mb = conn.message_broker
    if id(mb) in _SRV:
        backend, srv = _SRV[id(mb)]
        if backend == "redis":
            from fakes import redis as fr
            out = {"places": {i: sorted(p[0] for p in v) for i, v in fr.redis_places(srv).items()}, "keys": sorted(srv.kv)}
        else:
            out = {"server": srv.snapshot()}
        out["buckets"] = sorted(conn.args_bucket_broker._InMemoryBucketBroker__storage)
        return out
    out = {q: {i: sorted(p[0] for p in v) for i, v in mem_places(mb, q).items()} for q in mb.queues}
    out["buckets"] = sorted(conn.args_bucket_broker._InMemoryBucketBroker__storage)
    return out


async def _perform(conn, op, style, key, params, actor=None, processor=None):
    """Run one wrapped operation; returns (result-or-exception, by-name arguments that were supplied)."""
    from repid.data._key import RoutingKey
    mb, ab = conn.message_broker, conn.args_bucket_broker
    newkey = RoutingKey(topic="job", queue="default", id_="fresh")
    table = {
        "enqueue": (mb.enqueue, {"key": newkey, "payload": "p2", "params": params}),
        "ack": (mb.ack, {"key": key}), "nack": (mb.nack, {"key": key}), "reject": (mb.reject, {"key": key}),
        "requeue": (mb.requeue, {"key": key, "payload": "p3", "params": params}),
        "queue_declare": (mb.queue_declare, {"queue_name": "other"}),
        "queue_flush": (mb.queue_flush, {"queue_name": "default"}),
        "queue_delete": (mb.queue_delete, {"queue_name": "default"}),
        "store_bucket": (ab.store_bucket, {"id_": "b2", "payload": ab.BUCKET_CLASS(data="y", timestamp=params.timestamp)}),
        "get_bucket": (ab.get_bucket, {"id_": "b1"}),
        "delete_bucket": (ab.delete_bucket, {"id_": "b1"}),
    }
    if op == "consume":
        cons = mb.get_consumer("default", ["job"])
        await cons.start()

        async def consume_and_finish():
            try:
                return await asyncio.wait_for(cons.consume(), timeout=1)
            finally:
                if id(mb) in _SRV:
                    await cons.finish()      # server-side consumers are closed again (the held message goes back)
        fn, named = (cons.consume if id(mb) not in _SRV else consume_and_finish), {}
    elif op == "actor_run":
        fn = processor.actor_run
        named = {"actor": actor, "key": key, "parameters": params, "payload": "", "connection": conn}
    else:
        fn, named = table[op]
    try:
        if style == "positional":
            r = await fn(*named.values())
        elif style == "keyword":
            r = await fn(**named)
        else:
            vals = list(named.items())
            half = len(vals) // 2
            r = await fn(*[v for _, v in vals[:half]], **dict(vals[half:]))
        return ("ok", r), named
    except Exception as e:  # noqa: BLE001
        return ("exc", type(e).__name__), named


def h17(S, two_connections=None, backend="mem"):
    from repid._processor import _Processor

    op = OPS[S.pick("operation", len(OPS))]
    style = ["positional", "keyword", "mixed"][S.pick("style", 3)]
    sub = SUBS[S.pick("subscriber", len(SUBS))]
    second = S.flag("second_connection_alive") if two_connections is None else two_connections
    # the application may have turned repid's debug logging on (the harness otherwise runs with logging disabled)
    debug_logging = S.flag("repid_logger_at_debug_level")
    S.tag("operation", op)
    S.tag("subscriber", sub)
    S.tag("second_connection", second)
    log = []
    other_log = []
    out = {}

    PARAMS = {"enqueue": ["key", "payload", "params"], "requeue": ["key", "payload", "params"], "ack": ["key"], "nack": ["key"],
              "reject": ["key"], "queue_declare": ["queue_name"], "queue_flush": ["queue_name"], "queue_delete": ["queue_name"],
              "store_bucket": ["id_", "payload"], "get_bucket": ["id_"], "delete_bucket": ["id_"], "consume": [],
              "actor_run": ["actor", "key", "parameters", "payload", "connection"]}

    def subscribe(conn, log_, kind):
        """Subscribers name the arguments they want (the middleware maps signal arguments by name)."""
        from repid.middlewares import SUBSCRIBERS_NAMES
        for name in sorted(SUBSCRIBERS_NAMES):
            opn = name.split("_", 1)[1]
            names = list(PARAMS[opn]) + (["result"] if name.startswith("after_") else [])
            if kind == "sync-subset":
                names = names[:1]
            # the documented signatures: plain required parameters (kind "required-args"); the others give every parameter a default
            sig = ", ".join(n if kind == "required-args" else f"{n}=None" for n in names)
            if kind == "extra-default-param":
                sig = (sig + ", " if sig else "") + "unrelated='dflt'"
            body = f"    log_.append(({name!r}, dict({', '.join(f'{n}={n}' for n in names)})))\n"
            if kind == "raising":
                body += "    raise RuntimeError('subscriber failed')\n"
            if kind == "slow":
                body = "    await asyncio.sleep(Fraction(1, 100))\n" + body
            head = ("def" if kind == "sync-subset" else "async def") + f" {name}({sig}):\n"
            ns = {"log_": log_, "asyncio": asyncio, "Fraction": Fraction}
            exec(head + body, ns)  # noqa: S102
            conn.middleware.add_subscriber(ns[name])

    async def job():
        return 5

    async def main(loop):
        # reference run without subscribers
        ref_conn, key, params = await _world(backend)
        ref_proc = _Processor(ref_conn)
        actor = mk_actor(job)
        ref_res, _ = await _perform(ref_conn, op, style, key, params, actor, ref_proc)
        ref_state = _state(ref_conn)
        # observed run
        conn, key, params = await _world(backend)
        proc = _Processor(conn)
        if sub != "none":
            subscribe(conn, log, sub)
        if second:
            conn2, _, _ = await _world(backend)
            subscribe(conn2, other_log, "async-all-args")
            _Processor(conn2)          # e.g. a second worker in the same process
        res, named = await _perform(conn, op, style, key, params, actor, proc)
        out.update(ref_res=ref_res, res=res, ref_state=ref_state, state=_state(conn), named=named)

    import logging
    lg = logging.getLogger("repid")
    saved = (logging.root.manager.disable, lg.level)
    if debug_logging:
        logging.disable(logging.NOTSET)
        lg.setLevel(logging.DEBUG)
    try:
        run_async(main, clock=PinnedClock(T0))
    finally:
        logging.disable(saved[0])
        lg.setLevel(saved[1])
    res, ref_res = out["res"], out["ref_res"]

    def norm(r):
        if r[0] == "ok" and isinstance(r[1], tuple) and hasattr(r[1], "_replace") and hasattr(r[1], "started_when"):
            return ("ok", r[1]._replace(started_when=0, finished_when=0))
        if r[0] == "ok" and isinstance(r[1], tuple) and len(r[1]) == 3:
            return ("ok", (r[1][0].id_, r[1][1]))
        return r

    S.cover("performed")
    S.check("same-result-as-without-subscribers", norm(res) == norm(ref_res), info=f"{op}/{style}/{sub}: {res} vs {ref_res}")
    S.check("same-effect-as-without-subscribers", out["state"] == out["ref_state"], info=f"{op}: {out['state']} vs {out['ref_state']}")
    S.check("other-connection-hears-nothing", other_log == [], info=f"{op}: signals delivered to another connection's subscribers: {[n for n, _ in other_log]}")
    if sub == "none":
        S.check("no-signal-without-subscribers", log == [])
        return
    names = [n for n, _ in log]
    if res[0] == "ok":
        S.check("exactly-one-before-and-one-after", names == [f"before_{op}", f"after_{op}"], info=f"{op}/{style}/{sub}: {names}")
    else:
        S.check("exactly-one-before-no-after-on-failure", names == [f"before_{op}"], info=f"{op}: {names}")
    if sub == "sync-subset" and names[:1] == [f"before_{op}"] and PARAMS[op]:
        # a synchronous subscriber that asks for the first argument only receives exactly that one
        first = PARAMS[op][0]
        S.cover("sync-subscriber-arguments")
        S.check("before-signal-carries-arguments-by-name", log[0][1] == {first: out["named"].get(first)},
                info=f"{op}/{style}: sync subscriber received {log[0][1]!r}")
    if sub in ("async-all-args", "slow", "raising", "extra-default-param", "required-args") and names[:1] == [f"before_{op}"]:
        for k_ in PARAMS[op]:
            out["named"].setdefault(k_, None)
        S.cover("arguments-checked")
        got = log[0][1]
        S.check("before-signal-carries-arguments-by-name", got == out["named"], info=f"{op}/{style}: {sorted(got)} vs {sorted(out['named'])}")
        if len(log) > 1 and res[0] == "ok":
            after = log[1][1]
            S.check("after-signal-carries-arguments-and-result", {k: v for k, v in after.items() if k != "result"} == out["named"]
                    and "result" in after and norm(("ok", after["result"])) == norm(res), info=f"{op}: {sorted(after)}")


def h17_nested(S):
    """Operations nested inside a wrapped operation emit nothing (RabbitMQ requeue = ack + publish; Job.enqueue)."""
    from fakes import amqp as fa
    from repid import Connection, InMemoryBucketBroker, Job
    from repid.data._key import RoutingKey
    import repid.data._parameters as P

    which = S.pick("scenario", 12)
    log = []
    S.tag("scenario", which)

    async def main(loop):
        if which == 0:
            mb, ch, srv = fa.mk_broker()
            conn = Connection(mb)
        elif which == 4:
            # Redis: the consumer's own background fetch dead-letters an expired message (a top-level nack)
            from fakes import redis as fr
            from engine import vtime
            srv = fr.FakeServer(clock=lambda: vtime.current_clock().time())
            mb = fr.mk_broker(srv)
            conn = Connection(mb)
        elif which == 5:
            # one middleware object handed to two connections through Repid(...)
            from repid import InMemoryMessageBroker, Repid
            hears = []

            class MW:
                async def before_enqueue(self, key):
                    hears.append(("before_enqueue", key.id_))

            mw = MW()
            c1, c2 = Connection(InMemoryMessageBroker()), Connection(InMemoryMessageBroker())
            Repid(c1, middlewares=[mw])
            Repid(c2, middlewares=[mw])
            for n, c in (("one", c1), ("two", c2)):
                await c.message_broker.queue_declare("default")
                await c.message_broker.enqueue(RoutingKey(topic="job", queue="default", id_=n), "p", None)
            log.extend(hears)
            return
        elif which == 10:
            # a tracing-style subscriber that sets a context variable: the operation runs as it would without subscribers
            import contextvars
            from repid import InMemoryMessageBroker
            from repid._processor import _Processor
            trace = contextvars.ContextVar("trace", default="unset")
            seen = {}
            for with_sub in (False, True):
                conn = Connection(InMemoryMessageBroker())
                if with_sub:
                    async def before_actor_run(key):
                        trace.set("set-by-subscriber")
                    conn.middleware.add_subscriber(before_actor_run)

                async def job():
                    return trace.get()

                res = await _Processor(conn).actor_run(mk_actor(job), RoutingKey(topic="job", queue="default", id_="j1"),
                                                       P.Parameters(timestamp=P.datetime.now()), "", conn)
                seen[with_sub] = (res.success, res.data)
            log.append(seen)
            return
        elif which == 11:
            # a broker subclass whose enqueue carries an ordinary functools.wraps decorator: signals still name the arguments
            import functools
            from repid import InMemoryMessageBroker

            def audited(fn):
                @functools.wraps(fn)
                async def wrapper(*args, **kwargs):
                    return await fn(*args, **kwargs)
                return wrapper

            class AuditedBroker(InMemoryMessageBroker):
                @audited
                async def enqueue(self, key, payload="", params=None):
                    return await super().enqueue(key, payload, params)

                @audited
                async def queue_declare(self, queue_name):
                    return await super().queue_declare(queue_name)

            conn = Connection(AuditedBroker())
            heard = []

            async def before_queue_declare(queue_name=None):
                heard.append(("before_queue_declare", queue_name))

            async def after_enqueue(key=None, payload=None, result="missing"):
                heard.append(("after_enqueue", getattr(key, "id_", None), payload))

            conn.middleware.add_subscriber(before_queue_declare)
            conn.middleware.add_subscriber(after_enqueue)
            positional = S.flag("called_positionally")
            if positional:
                await conn.message_broker.queue_declare("myqueue")
                await conn.message_broker.enqueue(RoutingKey(topic="job", queue="myqueue", id_="e1"), "p", None)
            else:
                await conn.message_broker.queue_declare(queue_name="myqueue")
                await conn.message_broker.enqueue(key=RoutingKey(topic="job", queue="myqueue", id_="e1"), payload="p", params=None)
            log.extend(heard)
            return
        elif which == 9:
            # a connection that was closed and opened again (two `magic(auto_disconnect=True)` blocks, a reconnect after an outage)
            from repid import InMemoryMessageBroker
            cycles = S.pick("close_and_reopen_cycles", 3)
            conn = Connection(InMemoryMessageBroker(), InMemoryBucketBroker())
            hears = []

            async def before_enqueue(key):
                hears.append(("before_enqueue", key.id_))

            async def after_store_bucket(id_, result):
                hears.append(("after_store_bucket", id_))

            conn.middleware.add_subscriber(before_enqueue)
            conn.middleware.add_subscriber(after_store_bucket)
            await conn.connect()
            for _ in range(cycles):
                await conn.disconnect()
                await conn.connect()
            await conn.message_broker.queue_declare("default")
            await conn.message_broker.enqueue(RoutingKey(topic="job", queue="default", id_="e1"), "p", None)
            await conn.args_bucket_broker.store_bucket("b1", conn.args_bucket_broker.BUCKET_CLASS(data="x"))
            log.extend(hears)
            return
        elif which == 8:
            # a worker processing a job whose arguments travel through a bucket: fetching them is a bucket operation like any other
            from repid import InMemoryMessageBroker, Router, Worker
            from repid.converter import BasicConverter
            conn = Connection(InMemoryMessageBroker(), InMemoryBucketBroker())
            await conn.message_broker.queue_declare("default")
            heard = []
            from repid.middlewares import SUBSCRIBERS_NAMES
            for name in sorted(SUBSCRIBERS_NAMES):
                async def f(name=name, **kw):
                    heard.append(name)
                f.__name__ = name
                conn.middleware.add_subscriber(f)
            r = Router()

            @r.actor(converter=BasicConverter)
            async def job(x: int):
                return x

            await Job("job", args={"x": 1}, id_="j1", _connection=conn).enqueue()
            heard.clear()
            await asyncio.wait_for(Worker(routers=[r], handle_signals=[], _connection=conn, messages_limit=1, auto_declare=False).run(), timeout=5)
            log.extend(x for x in heard if "consume" not in x)
            return
        elif which == 7:
            # a live consumer of connection A keeps reporting to A when another connection is constructed later
            from repid import InMemoryMessageBroker
            a_log, b_log = [], []
            ca = Connection(InMemoryMessageBroker())
            await ca.message_broker.queue_declare("default")

            async def before_consume(tgt=a_log):
                tgt.append("before_consume")

            async def after_consume(result=None, tgt=a_log):
                tgt.append("after_consume")

            ca.middleware.add_subscriber(before_consume)
            ca.middleware.add_subscriber(after_consume)
            cons = ca.message_broker.get_consumer("default", ["job"])
            await cons.start()
            cb = Connection(InMemoryMessageBroker())

            async def before_consume(tgt=b_log):  # noqa: F811
                tgt.append("before_consume")

            async def after_consume(result=None, tgt=b_log):  # noqa: F811
                tgt.append("after_consume")

            cb.middleware.add_subscriber(before_consume)
            cb.middleware.add_subscriber(after_consume)
            await ca.message_broker.enqueue(RoutingKey(topic="job", queue="default", id_="j1"), "p", None)
            await asyncio.wait_for(cons.consume(), timeout=1)
            log.append(("A", a_log))
            log.append(("B", b_log))
            return
        elif which == 6:
            # the same broker objects wrapped by a second Connection later on (e.g. re-created with other settings):
            # operations through the new connection are heard by the new connection's subscribers, not by the old one's
            from repid import InMemoryMessageBroker
            mb, bb = InMemoryMessageBroker(), InMemoryBucketBroker()
            old_log, new_log = [], []
            for tgt in (old_log, new_log):
                c = Connection(mb, bb)

                async def before_enqueue(key, tgt=tgt):
                    tgt.append(("before_enqueue", key.id_))

                async def before_store_bucket(id_, tgt=tgt):
                    tgt.append(("before_store_bucket", id_))

                c.middleware.add_subscriber(before_enqueue)
                c.middleware.add_subscriber(before_store_bucket)
            await c.message_broker.queue_declare("default")
            await Job("job", args={"x": 1}, id_="j1", _connection=c).enqueue()
            log.append(("old", [n for n, _ in old_log]))
            log.append(("new", [n for n, _ in new_log]))
            return
        elif 2 <= which <= 3:
            from repid import InMemoryMessageBroker
            mb = InMemoryMessageBroker()
            conn = Connection(mb)
        else:
            from repid import InMemoryMessageBroker
            mb = InMemoryMessageBroker()
            conn = Connection(mb, InMemoryBucketBroker())
        from repid.middlewares import SUBSCRIBERS_NAMES
        for name in sorted(SUBSCRIBERS_NAMES):
            async def f(name=name, **kw):
                log.append(name)
            f.__name__ = name
            conn.middleware.add_subscriber(f)
        await mb.queue_declare("default")
        log.clear()
        if which == 0:
            key = RoutingKey(topic="job", queue="default", id_="m1")
            mb._id_to_delivery_tag["m1"] = 1
            await mb.requeue(key, "p", P.Parameters(timestamp=P.datetime.now()))
        elif which == 1:
            await Job("job", args={"x": 1}, _connection=conn).enqueue()
        elif which == 4:
            key = RoutingKey(topic="job", queue="default", id_="old")
            await mb.enqueue(key, "p", P.Parameters(timestamp=P.datetime.now() - real_timedelta(hours=2), ttl=real_timedelta(seconds=1)))
            log.clear()
            cons = mb.get_consumer("default", ["job"])
            await cons.start()
            try:
                await asyncio.wait_for(cons.consume(), timeout=1)
            except asyncio.TimeoutError:
                pass
            await cons.finish()
        elif which == 2:
            # an operation that fails, handled by the application, then further operations in the same task
            try:
                await mb.enqueue(RoutingKey(topic="job", queue="no-such-queue", id_="m1"), "p", None)
            except KeyError:
                pass
            await mb.queue_declare("later")
        else:
            # a consume that is cancelled by a timeout, then further operations in the same task
            cons = mb.get_consumer("default", ["job"])
            await cons.start()
            try:
                await asyncio.wait_for(cons.consume(), timeout=Fraction(1, 100))
            except asyncio.TimeoutError:
                pass
            await mb.queue_declare("later")

    run_async(main, clock=PinnedClock(T0))
    S.cover("nested")
    if which == 10:
        S.check("same-result-as-without-subscribers", log[0][True] == log[0][False], info=f"without subscribers {log[0][False]}, with a subscriber that sets a context variable {log[0][True]}")
    elif which == 11:
        S.check("signals-carry-arguments-by-name", log == [("before_queue_declare", "myqueue"), ("after_enqueue", "e1", "p")], info=str(log))
    elif which == 9:
        S.check("signals-reach-the-subscribers-of-a-reopened-connection", log == [("before_enqueue", "e1"), ("after_store_bucket", "b1")],
                info=f"after closing and reopening the connection the subscribers heard {log}")
    elif which == 0:
        S.check("nested-operations-emit-nothing", log == ["before_requeue", "after_requeue"], info=str(log))
    elif which == 4:
        S.check("consumer-side-dead-lettering-is-signalled", [x for x in log if "nack" in x] == ["before_nack", "after_nack"], info=str(log))
    elif which == 8:
        S.check("worker-side-bucket-fetch-is-signalled", log == ["before_get_bucket", "after_get_bucket", "before_actor_run", "after_actor_run", "before_ack", "after_ack"], info=str(log))
    elif which == 7:
        S.check("a-live-consumer-keeps-reporting-to-its-own-connection", log == [("A", ["before_consume", "after_consume"]), ("B", [])], info=str(log))
    elif which == 6:
        S.check("signals-go-to-the-connection-the-operation-went-through",
                log == [("old", []), ("new", ["before_store_bucket", "before_enqueue"])], info=str(log))
    elif which == 5:
        S.check("shared-middleware-hears-both-connections", log == [("before_enqueue", "one"), ("before_enqueue", "two")], info=str(log))
    elif which == 2:
        S.check("signals-continue-after-a-failed-operation", log == ["before_enqueue", "before_queue_declare", "after_queue_declare"], info=str(log))
    elif which == 3:
        S.check("signals-continue-after-a-cancelled-operation", log == ["before_consume", "before_queue_declare", "after_queue_declare"], info=str(log))
    else:
        S.check("job-enqueue-emits-its-two-top-level-operations",
                log == ["before_store_bucket", "after_store_bucket", "before_enqueue", "after_enqueue"], info=str(log))


HARNESSES = [
    Harness(name="H17-observe", scenario=h17, workers=16, budget_s=900,
            bounds={"operation": "each of the 13 wrapped operations", "call style": "positional / keyword / mixed",
                    "subscribers": "none / async taking all arguments / sync taking a subset / raising / slow (sleeps 10 ms) / with an unrelated default parameter",
                    "connections": "one, or a second connection with its own processor alive in the process"},
            functions=["middlewares/wrapper.py:_middleware_wrapper.__call__", "middlewares/middleware.py:Middleware.emit_signal", "connections/abc.py:_WrappedABC.__new__"],
            covers=["performed", "arguments-checked"]),
    Harness(name="H17-observe-redis", scenario=h17, workers=16, budget_s=900, params={"quick": {"backend": "redis"}, "thorough": {"backend": "redis"}},
            bounds={"as H17-observe": "on RedisMessageBroker over the fake server (message-broker operations; buckets stay in memory)"},
            functions=["connections/redis/message_broker.py:RedisMessageBroker.queue_delete"], covers=["performed"], stubs=["fake Redis server"]),
    Harness(name="H17-observe-rabbit", scenario=h17, workers=16, budget_s=900, params={"quick": {"backend": "rabbit"}, "thorough": {"backend": "rabbit"}},
            bounds={"as H17-observe": "on RabbitMessageBroker over the fake AMQP channel"},
            functions=["connections/rabbitmq/message_broker.py:RabbitMessageBroker.requeue"], covers=["performed"], stubs=["fake AMQP server"]),
    Harness(name="H17-nested", scenario=h17_nested, bounds={"scenarios": "RabbitMQ requeue (ack + publish inside), Job.enqueue with an args bucket, a failed operation followed by another one in the same task, a cancelled consume followed by another operation, a Redis consumer dead-lettering an expired message, one middleware object shared by two connections, the same broker objects wrapped by a second Connection, a consumer alive while another connection is constructed, a worker fetching a job's argument bucket"},
            covers=["nested"], stubs=["fake AMQP channel"]),
]
ASSUMPTIONS = ["differential oracle: the same operation on an identically prepared connection without subscribers", "selectors are discrete (enumeration)"]
