"""One worker step from an arbitrary valid message state (shared by C02, C04, C06, C12, C13).

State is constructed directly (a message sitting in the in-memory broker's `processing`
set, i.e. just consumed), then the real `_Processor.process` runs on it, then a normal
consumer listens at a later symbolic instant.  Because `already_tried`, `max_amount`,
the clock, the period and the back-off are unbounded symbolic integers, one step covers
every position of every retry/reschedule chain (induction over the chain length).
"""
from __future__ import annotations

from engine import vtime
from engine.symx import all_of, any_of, implies, neg
from engine.vtime import PinnedClock, VTimedelta, real_timedelta
from harness.common import SEC, Y1970, Y2100, Recorder, mem_places, mk_actor, run_async, try_consume, us_of

HUNDRED_Y = 100 * 366 * 86400 * SEC


class Obs:
    pass


def process_step(S, *, policy_kind=None, with_result=False, ttl=False, explicit_retry=False, eager_reschedule=False):
    import repid.data._parameters as P
    from repid import Connection, InMemoryBucketBroker, InMemoryMessageBroker
    from repid._processor import _Processor
    from repid.connections.in_memory.utils import Message
    from repid.data._key import RoutingKey
    from repid.retry_policy import default_retry_policy_factory

    o = Obs()
    o.k = k = S.int("already_tried", 0, None)
    o.N = N = S.int("max_amount", 0, None)
    # k may exceed N: forced retries push the counter above the budget (C04), and the ladder then has to treat the budget as spent
    o.fail = fail = S.bool("actor_fails")
    o.recurring = recurring = S.flag("recurring")
    o.p = p = S.int("period", SEC, HUNDRED_Y) if recurring else None
    o.now = now = S.int("now", Y1970 + HUNDRED_Y, Y2100)
    o.ts = ts = S.int("timestamp", Y1970, Y2100)
    S.assume(ts <= now)
    # scheduled time of the iteration that is running now (None for a first, immediate run)
    o.has_S = has_S = S.flag("has_scheduled_time")
    o.Sched = Sched = S.int("scheduled_time", Y1970, Y2100) if has_S else None
    if has_S:
        S.assume(Sched <= now)        # it was delivered, so it was due (C05)
    o.has_du = has_du = S.flag("has_deferred_until") if recurring else False
    o.du = du = S.int("deferred_until", Y1970, Y2100) if has_du else None
    if has_du:
        S.assume(du <= now)
    o.has_ttl = has_ttl = S.flag("has_ttl") if ttl else False
    o.ttl = ttl_us = S.int("ttl", 0, HUNDRED_Y) if has_ttl else None

    # retry policy ------------------------------------------------------------------------
    if policy_kind is None:
        policy_kind = S.pick("policy_kind", 2)
    o.policy_calls = []
    if policy_kind == 0:
        mn = S.int("min_backoff", 1, 10**9)
        mx = S.int("max_backoff", 1, 10**9)
        S.assume(mn <= mx)
        mult = S.int("multiplier", 1, 10**9)
        mexp = S.int("max_exponent", 1, 10**5)
        S.assume(k <= 10**5)
        inner = default_retry_policy_factory(mn, mx, mult, mexp)
        o.backoff_lo = mn * SEC

        def policy(retry_number=1):
            o.policy_calls.append(retry_number)
            r = inner(retry_number)
            o.backoff = vtime.td_us(r)
            return r
    else:
        b = S.int("user_backoff", 0, HUNDRED_Y)
        o.backoff_lo = 0

        def policy(retry_number=1):
            o.policy_calls.append(retry_number)
            o.backoff = b
            return S.timedelta_us(b)
    S.tag("policy", "default" if policy_kind == 0 else "user")

    params = P.Parameters(
        execution_timeout=real_timedelta(seconds=600),
        result=P.ResultProperties(id_="res1", ttl=real_timedelta(days=1)) if with_result else None,
        retries=P.RetriesProperties(max_amount=N, already_tried=k),
        delay=P.DelayProperties(
            delay_until=S.datetime_us(du) if has_du else None,
            defer_by=S.timedelta_us(p) if recurring else None,
            next_execution_time=S.datetime_us(Sched) if has_S else None,
        ),
        timestamp=S.datetime_us(ts),
        ttl=S.timedelta_us(ttl_us) if has_ttl else None,
    )
    o.params = params
    key = RoutingKey(topic="job", queue="default", id_="m1")
    o.key = key
    clock = PinnedClock(now)
    o.runs = []

    async def fn():
        o.runs.append(1)
        if fail:
            raise ValueError("boom")
        return "ok"

    o.explicit_retry = bool(explicit_retry and S.flag("actor_asks_for_the_retry_itself"))
    if o.explicit_retry:
        # the failure is expressed through the message API: `await message.retry()`; with the budget spent that call is
        # refused (ValueError inside the actor), i.e. an ordinary failed execution
        from harness.actors import explicit_retry_fn
        fn = explicit_retry_fn(o.runs, fail)
    o.eager_reschedule = bool(eager_reschedule and recurring and not o.explicit_retry and S.flag("actor_reschedules_itself_with_a_failing_callback"))
    if o.eager_reschedule:
        from harness.actors import eager_reschedule_fn
        fn = eager_reschedule_fn(o.runs)
        o.fail = fail = False         # the iteration completes (by the actor's own reschedule)
    actor = mk_actor(fn, retry_policy=policy)

    o.delta = delta = S.int("listen_after", 0, HUNDRED_Y)

    async def main(loop):
        broker = InMemoryMessageBroker()
        rb = InMemoryBucketBroker(use_result_bucket=True)
        conn = Connection(broker, None, rb if with_result else None)
        await conn.connect()
        await broker.queue_declare("default")
        q = broker.queues["default"]
        q.processing.add(Message(key, "", params))
        rec = Recorder(broker)
        proc = _Processor(conn)
        await proc.process(actor, key, "", params)
        o.calls = rec.calls
        o.places = mem_places(broker)
        o.result = await rb.get_bucket("res1") if with_result else None
        # a normal consumer listens at a later instant
        clock.set(now + delta)
        cons = broker.get_consumer("default", ["job"])
        await cons.start()
        o.delivered = await try_consume(cons)
        o.places_after = mem_places(broker)

    run_async(main, clock=clock)
    return o
