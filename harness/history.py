"""Bounded broker-API histories compared step by step with a reference lifecycle model.

The operation chosen at every step is a solver-enumerated selector restricted to what a
well-behaved client may do (terminal actions only on held messages, fresh ids).  After
every call the broker-side state (in-memory DummyQueue fields / keys of the fake Redis
server / queues and unacked map of the fake AMQP server) is compared with the model:
every id is in exactly the place the model says, with the payload it should carry.
"""
import asyncio
from fractions import Fraction

from engine.vtime import real_timedelta
from harness.common import T0, SEC, mem_places, run_async, try_consume

CATS = ["NORMAL", "DELAYED", "DEAD"]
PRIO = [5]        # priority of every message of the current history (set per scenario; Redis histories vary it)
DELAY_S = 2
ADVANCE_S = 3


class Adapter:
    name = "?"
    has_finish = True
    finish_returns_held = False   # only the in-memory consumer hands held messages back on finish()

    async def open(self, loop): ...
    def places(self): ...                 # id -> list of place names
    def payload_of(self, id_): ...        # payload stored for a message that is not held / or None
    async def consume(self, cat): ...     # -> (key, payload, params) | None
    async def finish(self, cat): ...


class MemAdapter(Adapter):
    name = "in-memory"
    finish_returns_held = True

    async def open(self, loop):
        from repid import Connection, InMemoryMessageBroker
        from repid.message import MessageCategory
        self.broker = InMemoryMessageBroker()
        self.conn = Connection(self.broker)
        await self.conn.connect()
        await self.broker.queue_declare("default")
        self.MC = MessageCategory
        self.cons = {}
        for c in CATS:
            self.cons[c] = self.broker.get_consumer("default", ["job"], None, MessageCategory[c])
            await self.cons[c].start()

    def places(self):
        return {i: sorted(p[0] for p in v) for i, v in mem_places(self.broker).items()}

    def payload_of(self, id_):
        for p in mem_places(self.broker).get(id_, []):
            return p[1].payload
        return None

    async def consume(self, cat):
        return await try_consume(self.cons[cat], timeout=Fraction(5, 1000))

    async def finish(self, cat):
        await self.cons[cat].finish()
        await self.cons[cat].start()


class RedisAdapter(Adapter):
    name = "redis"
    has_finish = False     # in-flight state lives on the server; finish() only returns the local prefetch buffer

    async def open(self, loop):
        from fakes import redis as fr
        from engine import vtime
        from repid.message import MessageCategory
        self.fr = fr
        self.srv = fr.FakeServer(clock=lambda: vtime.current_clock().time())
        self.broker = fr.mk_broker(self.srv)
        self.cons = {}
        for c in CATS:
            self.cons[c] = self.broker.get_consumer("default", ["job"], None, MessageCategory[c])
            self.cons[c].POLLING_WAIT = 0

    def places(self):
        return {i: sorted(p[0] for p in v) for i, v in self.fr.redis_places(self.srv).items()}

    def payload_of(self, id_):
        from repid.data._key import RoutingKey
        m = self.fr.redis_message(self.srv, RoutingKey(topic="job", queue="default", priority=PRIO[0], id_=id_))
        return None if m is None else m.get("payload")

    async def consume(self, cat):
        return await self.cons[cat].consume_or_none()

    async def finish(self, cat):
        await self.cons[cat].finish()


class RabbitAdapter(Adapter):
    name = "rabbitmq"
    has_finish = True

    async def open(self, loop):
        from fakes import amqp as fa
        from repid.message import MessageCategory
        self.MC = MessageCategory
        self.broker, self.ch, self.srv = fa.mk_broker()
        self.srv.confirm_turns = getattr(self, "confirm_turns", 0)
        self.srv.settle_turns = getattr(self, "settle_turns", 0)
        self.srv.consume_ok_turns = getattr(self, "consume_ok_turns", 0)
        await self.broker.queue_declare("default")
        self.cons = {}
        self.started = set()
        self.held = set()

    async def _consumer(self, cat):
        if cat not in self.cons:
            # one channel per consumer so that prefetch windows and delivery tags do not mix
            from fakes import amqp as fa
            self.cons[cat] = self.broker.get_consumer("default", ["job"], None, self.MC[cat])
        if cat not in self.started:
            await self.cons[cat].start()
            self.started.add(cat)
        return self.cons[cat]

    def places(self):
        out = {}
        names = {"default": "waiting", "default:delayed": "delayed", "default:dead": "dead"}
        for qn, q in self.srv.queues.items():
            for m in q.ready:
                out.setdefault(m.props.message_id, []).append(names[qn])
        for ch in self.srv.channels:
            for dtag, (q, m, ctag) in ch.unacked.items():
                mid = m.props.message_id
                if mid in self.held:
                    out.setdefault(mid, []).append("processing")
                else:
                    # delivered to the client library but not yet handed to the caller: still in its category
                    out.setdefault(mid, []).append(names[q.name])
        return {i: sorted(v) for i, v in out.items()}

    def payload_of(self, id_):
        import json
        for q in self.srv.queues.values():
            for m in q.ready:
                if m.props.message_id == id_:
                    return json.loads(m.body)["payload"]
        for ch in self.srv.channels:
            for q, m, _ in ch.unacked.values():
                if m.props.message_id == id_:
                    return json.loads(m.body)["payload"]
        return None

    async def consume(self, cat):
        c = await self._consumer(cat)
        got = await try_consume(c, timeout=Fraction(1, 2))
        if got is not None:
            self.held.add(got[0].id_)
        if cat != "NORMAL":
            # a DELAYED/DEAD-category consumer is only opened for the duration of the call (as Queue.get_messages
            # does); left subscribed it would capture every later delayed message
            await self.finish(cat)
        return got

    async def finish(self, cat):
        if cat in self.started:
            await self.cons[cat].finish()
            self.started.discard(cat)
            for _ in range(10):
                await asyncio.sleep(0)

    def settled(self, id_):
        self.held.discard(id_)


ADAPTERS = {"mem": MemAdapter, "redis": RedisAdapter, "rabbit": RabbitAdapter}


class StopPath(Exception):
    """The implementation and the model diverged: later steps would only repeat the report."""


class Model:
    """Reference lifecycle: id -> dict(place, origin, payload, due)."""

    def __init__(self):
        self.m = {}
        self.order = []   # enqueue/return order of ids (for FIFO checks)

    def deliverable(self, cat, now_s):
        if cat == "NORMAL":
            return [i for i, v in self.m.items() if v["place"] == "waiting" or (v["place"] == "delayed" and v["due"] < now_s)]
        if cat == "DELAYED":
            return [i for i, v in self.m.items() if v["place"] == "delayed"]
        return [i for i, v in self.m.items() if v["place"] == "dead"]

    def held(self):
        return [i for i, v in self.m.items() if v["place"] == "held"]


def run_history(S, backend="mem", steps=3, pre=1, ops_allowed=None, cancel_last=False):
    from repid.data._key import RoutingKey
    import repid.data._parameters as P

    A = ADAPTERS[backend]()
    model = Model()
    trace = []
    S.tag("backend", backend)
    PRIO[0] = 5
    if backend == "redis" and ops_allowed is not None and not cancel_last:
        # the revive histories (dead-letter, read through DEAD, requeue, ...) also run at the other priorities
        PRIO[0] = [5, 0, 9][S.pick("priority", 3)]
        S.tag("priority", PRIO[0])
    if backend == "rabbit":
        # RabbitMQ may deliver a published message before the publisher confirm returns, or after
        A.confirm_turns = [0, 3][S.pick("confirm_after_delivery", 2)]
        # ... and a redelivery caused by reject/nack may reach the consumer before that call returns
        A.settle_turns = [0, 3][S.pick("settle_returns_after_redelivery", 2)]

    def params_for(loop, delayed, tag):
        now = T0 + int(loop.time().f * SEC)
        net = None
        if delayed:
            net = S.datetime_us(now + DELAY_S * SEC)
        return P.Parameters(delay=P.DelayProperties(next_execution_time=net),
                            retries=P.RetriesProperties(max_amount=5, already_tried=tag),
                            timestamp=S.datetime_us(now))

    def compare(step_label):
        ok_all = [True]
        _check = S.check

        def check(label, cond, info=None):
            r = _check(label, cond, info)
            ok_all[0] = ok_all[0] and r
            return r

        try:
            S.check = check
            _compare(step_label)
        finally:
            S.check = _check
        if not ok_all[0]:
            raise StopPath()

    def _compare(step_label):
        obs = A.places()
        for i, v in model.m.items():
            got = obs.get(i, [])
            want = v["place"]
            now_s = A.loop.time()
            if want == "gone":
                ok = got == []
            elif want == "held":
                ok = got == ["processing"]
            elif want == "delayed" and v["due"] <= now_s:
                ok = got in (["delayed"], ["waiting"])       # a due message may already have been promoted
            else:
                ok = got == [want]
            if not ok:
                S.tag("deviation", f"{want}:{v.get('origin')}->{','.join(got) or 'nowhere'}")
            S.check("every-message-in-exactly-its-place", ok,
                    info=f"after {trace}: message {i} expected {want} (origin {v.get('origin')}), found {got}")
            if ok and want not in ("gone",) and v.get("payload") is not None:
                pay = A.payload_of(i)
                if pay is not None:
                    S.check("payload-is-the-latest", pay == v["payload"], info=f"after {trace}: {i} payload {pay!r} != {v['payload']!r}")
        for i in obs:
            S.check("no-unknown-message", i in model.m, info=f"after {trace}: unexpected message {i}")

    async def cancelled_step(loop, op, arg, now_s):
        """Run the last operation in a task, cancel it after j loop steps: the broker must be left
        either as before the call or as after the complete call (atomicity)."""
        import copy
        pre_obs = A.places()
        pre_pay = {i: A.payload_of(i) for i in pre_obs}
        key = RoutingKey(topic="job", queue="default", priority=PRIO[0], id_=arg if arg in model.m else "mc")
        if op in ("enqueue", "enqueue-delayed"):
            coro = A.broker.enqueue(key, "plmc", params_for(loop, op == "enqueue-delayed", 0))
            post = dict(pre_obs); post["mc"] = ["delayed" if op == "enqueue-delayed" else "waiting"]
            posts = [post]
        elif op == "consume":
            coro = A.consume(arg)
            posts = []
            for i in model.deliverable(arg, now_s):
                post = dict(pre_obs); post[i] = ["processing"]
                posts.append(post)
            # a failed consume may promote due delayed messages
            promo = dict(pre_obs)
            for i, v in model.m.items():
                if v["place"] == "delayed" and v["due"] < now_s and pre_obs.get(i) == ["delayed"]:
                    promo[i] = ["waiting"]
            posts.append(promo)
            for pst in list(posts):
                q = dict(pst)
                for i in promo:
                    if promo[i] == ["waiting"] and q.get(i) == ["delayed"]:
                        q[i] = ["waiting"]
                posts.append(q)
        elif op in ("ack", "nack", "reject", "requeue", "requeue-delayed"):
            v = model.m[arg]
            post = dict(pre_obs)
            if op == "ack":
                coro = A.broker.ack(key); post.pop(arg, None)
            elif op == "nack":
                coro = A.broker.nack(key); post[arg] = ["dead"]
            elif op == "reject":
                coro = A.broker.reject(key)
                post[arg] = [{"NORMAL": "waiting", "DELAYED": "delayed", "DEAD": "dead"}[v["origin"]]]
            else:
                coro = A.broker.requeue(key, "plrq", params_for(loop, op == "requeue-delayed", 1))
                post[arg] = ["delayed" if op == "requeue-delayed" else "waiting"]
            posts = [post]
            if op == "reject" and v["due"] is not None:
                alt = dict(post); alt[arg] = ["delayed"]; posts.append(alt)
        else:
            return
        j = S.pick("cancel_after_steps", 9)
        S.tag("cancelled_kind", op.replace("-delayed", ""))
        S.tag("origin", str(model.m[arg]["origin"]) if arg in model.m else "-")
        S.tag("last_op", "cancelled")
        t = asyncio.ensure_future(coro)
        for _ in range(j):
            if t.done():
                break
            await asyncio.sleep(0)
        finished = t.done()
        t.cancel()
        try:
            await t
        except (asyncio.CancelledError, Exception):  # noqa: BLE001
            pass
        for _ in range(5):
            await asyncio.sleep(0)
        obs = A.places()
        S.cover("cancelled-mid-call" if not finished else "call-completed-before-cancel")
        ok = obs == pre_obs or any(obs == pst for pst in posts)
        if not ok:
            changed = sorted(set(list(obs) + list(pre_obs)))
            S.tag("deviation", ";".join(sorted({f"{','.join(pre_obs.get(i, [])) or 'nowhere'}->{','.join(obs.get(i, [])) or 'nowhere'}"
                                                 for i in changed if obs.get(i) != pre_obs.get(i)})))
        S.check("cancelled-call-is-all-or-nothing", ok,
                info=f"after {trace} cancelled after {j} steps: before {pre_obs}, after {obs}, allowed {posts}")
        for i, pl in obs.items():
            S.check("at-most-one-place", len(pl) == 1, info=f"{i}: {pl}")

    async def main(loop):
        A.loop = loop
        await A.open(loop)
        nid = 0
        for _ in range(pre):
            key = RoutingKey(topic="job", queue="default", priority=PRIO[0], id_=f"m{nid}")
            await A.broker.enqueue(key, f"pl{nid}", params_for(loop, False, 0))
            model.m[f"m{nid}"] = {"place": "waiting", "origin": None, "payload": f"pl{nid}", "due": None}
            nid += 1
        compare("pre")
        for step in range(steps):
            held = model.held()
            menu = [("enqueue", None), ("enqueue-delayed", None)]
            menu += [("consume", c) for c in CATS]
            for h in held:
                menu += [("ack", h), ("reject", h), ("requeue", h), ("requeue-delayed", h)]
                if model.m[h]["origin"] == "NORMAL":
                    menu += [("nack", h)]
            menu += [("advance", None)]
            if A.has_finish and held:
                menu += [("finish", "NORMAL")]
                # a DELAYED / DEAD-category reader that is closed while it still holds a message (in-memory broker)
                if A.finish_returns_held:
                    menu += [("finish", c) for c in ("DELAYED", "DEAD") if any(model.m[h]["origin"] == c for h in held)]
            if ops_allowed is not None:
                menu = [x for x in menu if x[0] in ops_allowed]
            op, arg = menu[S.pick(f"op{step}", len(menu))]
            trace.append((op, arg))
            S.tag("last_op", op + (":" + str(model.m[arg]["origin"]) if arg in model.m else ""))
            now_s = loop.time()
            is_last_cancelled = cancel_last and step == steps - 1
            if is_last_cancelled:
                await cancelled_step(loop, op, arg, now_s)
                return
            if op in ("enqueue", "enqueue-delayed"):
                i = f"m{nid}"
                nid += 1
                delayed = op == "enqueue-delayed"
                key = RoutingKey(topic="job", queue="default", priority=PRIO[0], id_=i)
                await A.broker.enqueue(key, "pl" + i, params_for(loop, delayed, 0))
                model.m[i] = {"place": "delayed" if delayed else "waiting", "origin": None, "payload": "pl" + i,
                              "due": now_s + DELAY_S if delayed else None}
            elif op == "consume":
                can = model.deliverable(arg, now_s)
                got = await A.consume(arg)
                if got is None:
                    # a delayed message that is already due may have been promoted to the normal category
                    must = [i for i in can if not (arg == "DELAYED" and model.m[i]["due"] <= now_s)]
                    S.check("deliverable-message-is-delivered", not must,
                            info=f"after {trace}: nothing returned although {must} deliverable through {arg}")
                else:
                    gid = got[0].id_
                    S.cover("delivered-" + arg)
                    S.check("delivered-message-was-deliverable", gid in can,
                            info=f"after {trace}: {gid} returned through {arg}, deliverable were {can}")
                    if gid in model.m:
                        S.check("delivered-payload", got[1] == model.m[gid]["payload"])
                        model.m[gid].update(place="held", origin=arg)
            elif op in ("ack", "nack", "reject", "requeue", "requeue-delayed"):
                key = RoutingKey(topic="job", queue="default", priority=PRIO[0], id_=arg)
                v = model.m[arg]
                if op == "ack":
                    await A.broker.ack(key)
                    v.update(place="gone")
                elif op == "nack":
                    await A.broker.nack(key)
                    v.update(place="dead")
                elif op == "reject":
                    await A.broker.reject(key)
                    back = {"NORMAL": "waiting", "DELAYED": "delayed", "DEAD": "dead"}[v["origin"]]
                    if back == "waiting" and v["due"] is not None and backend != "mem":
                        back = "delayed"   # a due delayed message taken by a normal consumer keeps its (past) due time
                    v.update(place=back)
                    S.cover("reject-" + v["origin"])
                else:
                    delayed = op == "requeue-delayed"
                    v["tag"] = v.get("tag", 0) + 1
                    newpl = f"{v['payload']}+r"
                    await A.broker.requeue(key, newpl, params_for(loop, delayed, v["tag"]))
                    v.update(place="delayed" if delayed else "waiting", payload=newpl,
                             due=now_s + DELAY_S if delayed else None)
                    S.cover("requeue")
                if hasattr(A, "settled"):
                    A.settled(arg)
            elif op == "advance":
                await asyncio.sleep(ADVANCE_S)
            elif op == "finish":
                await A.finish(arg)
                for i, v in model.m.items():
                    if A.finish_returns_held and v["place"] == "held" and v["origin"] == arg:
                        v.update(place={"NORMAL": "waiting", "DELAYED": "delayed", "DEAD": "dead"}[arg])
                        if hasattr(A, "settled"):
                            A.settled(i)
                S.cover("finish")
            compare(step)

    try:
        run_async(main)
    except StopPath:
        pass
