"""C02 - every delivery ends in exactly one, correct disposition."""

import asyncio
from fractions import Fraction

from engine.harness import Harness
from engine.symx import all_of, any_of, implies, neg
from engine.vloop import Deadlock
from engine.vtime import real_timedelta
from harness.common import SEC, World, mem_places, place_names, run_async
from harness.steps import process_step

EAGER = ["ack", "nack", "reject", "reschedule", "retry", "force_retry"]
EXTRAS = ["plain", "set_result", "set_exception", "callback", "raising_callback", "raising_partial_callback"]
BEHAVIOURS = (["return", "raise", "sleep_vs_timeout", "bad_payload", "failing_dependency", "bad_return", "raise_unprintable"] +
              ["eager_" + e for e in EAGER] + ["eager_reject_on_timeout", "nested_dependency_acks", "args_bucket_gone"])


def _action(beh):
    """The message-API call an eager behaviour makes."""
    return "reject" if beh == "eager_reject_on_timeout" else beh[len("eager_"):]


def h02_ladder(S):
    """The decision ladder from an arbitrary retry state, results on or off."""
    with_result = S.flag("store_result")
    o = process_step(S, policy_kind=1, with_result=with_result)
    ops = [c["op"] for c in o.calls]
    S.check("actor-invoked-once", len(o.runs) == 1)
    S.check("exactly-one-disposition", len(ops) == 1, info=str(ops))
    if len(ops) != 1:
        return
    if o.fail and o.k < o.N:
        S.cover("retry")
        want = "requeue"
    elif o.recurring:
        S.cover("reschedule")
        want = "requeue"
    elif not o.fail:
        S.cover("ack")
        want = "ack"
    else:
        S.cover("nack")
        want = "nack"
    S.check("correct-disposition", ops[0] == want, info=f"{ops[0]} != {want}")
    if ops[0] == "requeue" and not (o.fail and o.k < o.N):
        # a reschedule starts the next period with a fresh retry budget, so that failures there are retried again
        S.check("rescheduled-period-starts-with-a-fresh-retry-budget", o.calls[0]["args"][2].retries.already_tried == 0)
    S.check("disposition-completed", o.calls[0]["done"])
    S.check("single-copy", len(o.places.get("m1", [])) <= 1)
    if with_result:
        S.check("result-stored-after-disposition", o.result is not None)
    else:
        S.check("no-result-when-disabled", o.result is None)


def h02_rabbit_retry(S):
    """RabbitMQ, zero-delay retry through the real Worker: the failed delivery is settled, the retry runs once,
    the exhausted message is dead-lettered exactly once and nothing stays unacknowledged."""
    import repid.data._parameters as P
    from repid import Job, Router, Worker
    from repid.converter import BasicConverter

    confirm = [0, 3][S.pick("confirm_after_delivery", 2)]
    succeed_on_retry = S.flag("retry_succeeds")
    eager = S.flag("eager_retry")
    runs = []
    out = {}

    async def main(loop):
        w = World(backend="rabbit")
        w.srv.confirm_turns = confirm
        await w.open(record=True)
        r = Router()
        from repid import MessageDependency

        @r.actor(converter=BasicConverter, retry_policy=lambda retry_number=1: real_timedelta(0))
        async def job(m: MessageDependency):
            runs.append(m.parameters.retries.already_tried)
            if len(runs) == 1 or not succeed_on_retry:
                if eager and len(runs) == 1:
                    await m.retry(real_timedelta(0))
                raise ValueError("x")

        await Job("job", id_="m1", retries=1, _connection=w.conn).enqueue()
        worker = Worker(routers=[r], handle_signals=[], _connection=w.conn, graceful_shutdown_time=1.0, messages_limit=2)
        try:
            await asyncio.wait_for(worker.run(), timeout=20)
            out["returned"] = True
        except asyncio.TimeoutError:
            out["returned"] = False
        await asyncio.sleep(Fraction(1, 2))
        out["places"] = {i: sorted(p[0] for p in v) for i, v in w.places().items()}
        out["ops"] = [c["op"] for c in w.rec.calls if c["id"] == "m1" and c["op"] != "enqueue"]

    run_async(main)
    S.cover("rabbit-retry")
    S.check("worker-returns", out["returned"], info=f"runs={runs}")
    S.check("attempt-counters", runs == [0, 1], info=str(runs))
    S.check("one-disposition-per-delivery", out["ops"] == ["requeue", "ack" if succeed_on_retry else "nack"], info=str(out["ops"]))
    want = [] if succeed_on_retry else ["dead"]
    S.check("every-delivery-settled-final-place", out["places"].get("m1", []) == want,
            info=f"confirm after delivery={bool(confirm)}: message is in {out['places'].get('m1')}, expected {want}")


def h02_same_instant(S):
    """Several messages whose reports fall on the same clock reading (same retry due time, same next slot): each of them is
    requeued - none is dropped because another one already occupies that instant."""
    from repid import Job, Router, Worker
    from repid.converter import BasicConverter

    n = S.pick("jobs", 2) + 2
    kind = ["fail-with-a-retry-left", "recurring-success", "recurring-failure-exhausted"][S.pick("kind", 3)]
    S.tag("kind", kind)
    runs = []
    out = {}

    async def main(loop):
        w = World()
        await w.open(record=True)
        r = Router()

        @r.actor(converter=BasicConverter, retry_policy=lambda retry_number=1: real_timedelta(seconds=30))
        async def job(i: int):
            runs.append(i)
            if kind != "recurring-success":
                raise ValueError("x")

        for i in range(n):
            await Job("job", args={"i": i}, id_=f"m{i}", retries=1 if kind == "fail-with-a-retry-left" else 0,
                      deferred_by=real_timedelta(hours=1) if kind.startswith("recurring") else None, _connection=w.conn).enqueue()
        if kind.startswith("recurring"):
            q = w.broker.queues["default"]
            for t in list(q.delayed):
                for m in q.delayed.pop(t):
                    q.simple.put_nowait(m)
        worker = Worker(routers=[r], handle_signals=[], _connection=w.conn, graceful_shutdown_time=1.0, messages_limit=n, tasks_limit=n)
        await asyncio.wait_for(worker.run(), timeout=20)
        out["places"] = {f"m{i}": place_names(w.places(), f"m{i}") for i in range(n)}
        out["ops"] = {f"m{i}": [c["op"] for c in w.rec.calls if c["id"] == f"m{i}" and c["op"] != "enqueue"] for i in range(n)}

    run_async(main)
    S.cover("same-instant")
    S.check("every-job-ran-once", sorted(runs) == list(range(n)), info=str(runs))
    for i in range(n):
        S.check("exactly-one-disposition", out["ops"][f"m{i}"] == ["requeue"], info=f"m{i}: {out['ops'][f'm{i}']}")
        S.check("requeued-message-is-waiting-for-its-time", out["places"][f"m{i}"] == ["delayed"],
                info=f"{kind}: m{i} was requeued and is now in {out['places'][f'm{i}']} (all: {out['places']})")


def h02_rabbit_slow_settle(S):
    """RabbitMQ over a slow connection: the actor acks eagerly, the ack frame is out but the call is still draining when the
    execution timeout cancels the actor; whatever the worker does next, the delivery is settled once."""
    from repid import Job, MessageDependency, Router, Worker
    from repid.converter import BasicConverter

    eager = ["ack", "nack", "reject"][S.pick("eager_answer", 3)]
    retries = S.pick("retries", 2)
    out = {}

    async def main(loop):
        w = World(backend="rabbit")
        await w.open(record=False)
        r = Router()

        @r.actor(converter=BasicConverter, retry_policy=lambda retry_number=1: real_timedelta(hours=1))
        async def job(m: MessageDependency):
            w.srv.settle_delay = 2              # from now on settle calls take 2 s to return; the job's timeout is 1 s
            await getattr(m, eager)()

        await Job("job", id_="m1", retries=retries, timeout=real_timedelta(seconds=1), _connection=w.conn).enqueue()
        worker = Worker(routers=[r], handle_signals=[], _connection=w.conn, graceful_shutdown_time=5.0, messages_limit=1)
        try:
            await asyncio.wait_for(worker.run(), timeout=30)
            out["returned"] = True
        except asyncio.TimeoutError:
            out["returned"] = False
        await asyncio.sleep(3)
        out["frames"] = [x for ch in w.srv.channels for x in ch.log if x[0] in ("ack", "nack", "reject")]

    run_async(main)
    S.cover("slow-settle")
    S.check("worker-returns", out["returned"])
    tags = [f[1] for f in out["frames"]]
    S.check("one-settle-frame-per-delivery", len(tags) == len(set(tags)), info=f"settle frames on the channel: {out['frames']}")


def h02_worker(S, eager_extras=False, backend="mem", tasks_limit=2):
    """Two messages through a real Worker.run(): message 1 misbehaves in every supported way."""
    import repid.data._parameters as P
    from repid import Job, MessageDependency, Router, Worker
    from repid.converter import BasicConverter, PydanticConverter
    from repid.data._key import RoutingKey
    from repid.dependencies import Depends
    from typing import Annotated

    b = S.pick("behaviour", len(BEHAVIOURS))
    beh = BEHAVIOURS[b]
    extra = EXTRAS[S.pick("extra", len(EXTRAS))] if (beh.startswith("eager_") and eager_extras) else "plain"
    conv = [BasicConverter, PydanticConverter][S.pick("converter", 2)]
    k = S.int("already_tried", 0, None)
    N = S.int("max_amount", 0, None)
    S.assume(k <= N)
    recurring = S.flag("recurring")
    with_result = S.flag("store_result")
    no_rb = with_result and not beh.startswith("eager_") and S.flag("results_broker_missing")
    d = S.real("duration", Fraction(1, 2), Fraction(3, 2)) if beh == "sleep_vs_timeout" else 0
    S.tag("behaviour", beh)
    S.tag("extra", extra)
    S.tag("converter", conv.__name__)
    runs = {"m1": 0, "m2": 0}
    cb_log = []
    out = {}

    def failing_provider():
        raise RuntimeError("provider failed")

    async def main(loop):
        w = World(results=not no_rb, backend=backend, args_bucket=(beh == "args_bucket_gone"))
        await w.open(record=True)
        r = Router()
        policy = lambda retry_number=1: real_timedelta(hours=1)  # noqa: E731

        if beh == "nested_dependency_acks":
            # a dependency of a dependency answers the broker itself (e.g. drops a message it recognises as a duplicate)
            async def inner(m: MessageDependency):
                await m.ack()

            async def outer(x: Annotated[None, Depends(inner)]):
                runs["outer"] = runs.get("outer", 0) + 1
                return 1

            @r.actor(name="first", converter=conv, retry_policy=policy)
            async def first(i: int, dep: Annotated[int, Depends(outer)]):
                runs["m1"] += 1
                raise ValueError("the actor must not run after the message was answered")
        elif beh == "failing_dependency":
            @r.actor(name="first", converter=conv, retry_policy=policy)
            async def first(i: int, dep: Annotated[int, Depends(failing_provider)]):
                runs["m1"] += 1
        elif beh.startswith("eager_"):
            action = _action(beh)

            @r.actor(name="first", converter=conv, retry_policy=policy)
            async def first(i: int, m: MessageDependency):
                runs["m1"] += 1
                if runs["m1"] > 1:
                    return i        # a redelivery of the same message behaves
                if extra == "set_result":
                    m.set_result("early")
                elif extra == "set_exception":
                    m.set_exception(KeyError("early"))
                elif extra == "callback":
                    m.add_callback(lambda: cb_log.append("cb"))
                elif extra == "raising_callback":
                    def bad():
                        cb_log.append("bad")
                        raise RuntimeError("callback {0} failed: {'code': 7}")
                    m.add_callback(bad)
                elif extra == "raising_partial_callback":
                    import functools

                    async def abad(tag):
                        cb_log.append(tag)
                        raise RuntimeError("callback {0} failed: {'code': 7}")
                    m.add_callback(functools.partial(abad, "bad"))     # a callable without __name__
                if beh == "eager_reject_on_timeout":
                    try:
                        await asyncio.sleep(2)                         # the execution timeout is 1 s
                    except asyncio.CancelledError:
                        await m.reject()                               # the actor answers while it is being cancelled
                await getattr(m, action)()
                cb_log.append("after-eager")   # must never run
        elif beh == "raise_unprintable":
            class Unprintable(Exception):
                def __str__(self):
                    raise RuntimeError("cannot render this exception")

            @r.actor(name="first", converter=conv, retry_policy=policy)
            async def first(i: int):
                runs["m1"] += 1
                raise Unprintable()
        elif beh == "bad_return":
            @r.actor(name="first", converter=conv, retry_policy=policy)
            async def first(i: int) -> int:
                runs["m1"] += 1
                return {1, 2} if conv is BasicConverter else "not-an-int"   # cannot be encoded as the result
        else:
            @r.actor(name="first", converter=conv, retry_policy=policy)
            async def first(i: int):
                runs["m1"] += 1
                if beh == "raise":
                    raise ValueError("boom")
                if beh == "sleep_vs_timeout":
                    await asyncio.sleep(d)
                return i + 1

        @r.actor(name="second", converter=conv)
        async def second(i: int):
            runs["m2"] += 1
            return i

        params = P.Parameters(
            execution_timeout=real_timedelta(seconds=1),
            result=P.ResultProperties(id_="res1", ttl=None) if with_result else None,
            retries=P.RetriesProperties(max_amount=N, already_tried=k),
            # a recurring message that is being delivered carries the slot it was scheduled for
            delay=P.DelayProperties(defer_by=real_timedelta(hours=1) if recurring else None,
                                    next_execution_time=(P.datetime.now() - real_timedelta(seconds=1)) if recurring else None),
            timestamp=P.datetime.now(),
        )
        payload = '{"i": 1}'
        if beh == "args_bucket_gone":
            # the arguments travelled through a bucket that has expired or was deleted by the time the message runs
            from repid._utils import _ArgsBucketInMessageId
            payload = _ArgsBucketInMessageId.construct("no-such-bucket")
        if beh == "bad_payload":
            payload = '{"i": "not-a-number"}' if conv is PydanticConverter else '{"i": 1'
        # enqueue bypassing delay computation for recurring jobs: place directly as waiting
        key1 = RoutingKey(topic="first", queue="default", id_="m1")
        if backend == "mem":
            from repid.connections.in_memory.utils import Message
            w.broker.queues["default"].simple.put_nowait(Message(key1, payload, params))
        else:
            # straight into the normal list of the fake Redis server (no delay computation for recurring jobs)
            from repid.connections.redis.utils import mnc, qnc
            await w.broker.conn.hset(mnc(key1), mapping={"payload": payload, "parameters": params.encode()})
            await w.broker.conn.lpush(qnc("default", key1.priority), mnc(key1, short=True))
        await Job("second", args={"i": 2}, id_="m2", _connection=w.conn).enqueue()
        w.rec.calls.clear()
        # the worker stops after the expected number of deliveries: the two messages, plus one when message 1 is
        # handed back for immediate delivery (eager reject; eager reschedule of a one-shot job)
        refused = (beh == "eager_retry" and not bool(k < N)) or (extra in ("set_result", "set_exception") and not with_result)
        back = beh.startswith("eager_") and not refused and (_action(beh) == "reject" or (beh == "eager_reschedule" and not recurring))
        worker = Worker(routers=[r], handle_signals=[], _connection=w.conn, graceful_shutdown_time=5.0,
                        messages_limit=3 if back else 2, tasks_limit=tasks_limit)
        out["alive_before_stop"] = True
        try:
            await asyncio.wait_for(worker.run(), timeout=30)
            out["returned"] = True
        except asyncio.TimeoutError:
            out["returned"] = False
        await asyncio.sleep(0.01 if backend == "mem" else 0.5)
        out["calls"] = list(w.rec.calls)
        out["places"] = w.places()
        out["result"] = await w.rb.get_bucket("res1") if w.rb is not None else None
        out["task_errors"] = [repr(e)[:200] for e in loop.task_errors()]

    try:
        run_async(main)
    except Deadlock:
        S.check("worker-survives", False, info="deadlock")
        return
    S.check("worker-survives", out["returned"] and out["alive_before_stop"], info=f"worker alive before stop: {out.get('alive_before_stop')}, returned: {out['returned']}")
    if not out["returned"]:
        return
    S.cover("beh-" + beh)
    ops1 = [c["op"] for c in out["calls"] if c["id"] == "m1"]
    ops2 = [c["op"] for c in out["calls"] if c["id"] == "m2"]
    S.check("other-message-processed", runs["m2"] == 1 and ops2 == ["ack"], info=f"runs={runs} ops2={ops2}")

    # expected single action for message 1 -----------------------------------------------
    def ladder(fail):
        if fail and bool(k < N):
            return "requeue"
        if recurring:
            return "requeue"
        return "nack" if fail else "ack"

    eager_done = False
    if beh == "return":
        want, invoked = ladder(False), 1
    elif beh == "raise":
        want, invoked = ladder(True), 1
    elif beh == "sleep_vs_timeout":
        eps = Fraction(1, 10**6)   # timers closer than the loop's clock resolution may fire in either order
        if d < 1 - eps:
            S.cover("finished-before-timeout")
            want = ladder(False)
        elif d > 1 + eps:
            S.cover("timed-out")
            want = ladder(True)
        else:
            want = None   # exactly at the timeout: either outcome, but still exactly one action
        invoked = 1
    elif beh == "nested_dependency_acks":
        want, invoked = "ack", 0
        S.check("nothing-runs-after-a-dependency-answered", runs.get("outer", 0) == 0 and runs["m1"] == 0, info=str(runs))
    elif beh in ("bad_payload", "failing_dependency", "args_bucket_gone"):
        want, invoked = ladder(True), 0
    elif beh in ("bad_return", "raise_unprintable"):
        want, invoked = ladder(True), 1
    else:
        action = _action(beh)
        invoked = 1
        if action == "retry" and not bool(k < N):
            want = ladder(True)       # refused inside the actor -> ValueError -> ordinary failure
        elif extra in ("set_result", "set_exception") and not with_result:
            want = ladder(True)       # set_* refuses without result settings -> ordinary failure
        else:
            eager_done = True
            want = {"ack": "ack", "nack": "nack", "reject": "reject", "reschedule": "requeue",
                    "retry": "requeue", "force_retry": "requeue"}[action]
    # a message that was handed back for immediate delivery (eager reject; eager reschedule of a one-shot job) is
    # delivered once more within the run; that second delivery behaves and gets its own single disposition
    handed_back = eager_done and (_action(beh) == "reject" or (beh == "eager_reschedule" and not recurring))
    deliveries = 2 if handed_back else 1
    S.check("actor-invocations", runs["m1"] == (invoked if deliveries == 1 else 2), info=f"runs={runs['m1']} expected={invoked} deliveries={deliveries}")
    S.check("exactly-one-disposition", len(ops1) == deliveries, info=f"{beh}/{extra}: {ops1} task errors: {out['task_errors']}")
    if handed_back and len(ops1) == 2:
        S.check("redelivery-gets-its-own-disposition", ops1[1] == ladder(False), info=str(ops1))
        ops1 = ops1[1:] if False else ops1
    if want is not None and len(ops1) == deliveries:
        S.check("correct-disposition", ops1[0] == want, info=f"{beh}/{extra}: {ops1[0]} != {want}")
    S.check("code-after-eager-response-not-run", "after-eager" not in cb_log, info=str(cb_log))
    names = place_names(out["places"], "m1")
    S.check("at-most-one-copy", len(names) <= 1, info=str(names))
    if len(ops1) == deliveries:
        last = ops1[-1]
        exp_place = {"ack": [], "nack": ["dead"], "reject": ["waiting"], "requeue": ["delayed"]}[last]
        S.check("final-place-matches-disposition", names == exp_place, info=f"{ops1} -> {names}")


HARNESSES_EXTRA = [
    Harness(name="H02-rabbit-slow-settle", scenario=h02_rabbit_slow_settle,
            bounds={"eager answer": "ack / nack / reject, draining for 2 s while the execution timeout is 1 s", "retries": "0 or 1"},
            functions=["connections/rabbitmq/message_broker.py:RabbitMessageBroker.ack", "_processor.py:_Processor.report_to_broker"],
            covers=["slow-settle"], stubs=["fake AMQP channel: the frame takes effect at once, the call returns 2 s later"]),
]
HARNESSES = [
    Harness(
        name="H02-ladder", scenario=h02_ladder, workers=8,
        bounds={"retry state": "any 0 <= k <= N", "outcome": "success / exception", "recurring": "yes/no (any period >= 1 s)",
                "result storing": "on/off"},
        functions=["_processor.py:_Processor.process", "_processor.py:_Processor.report_to_broker", "_processor.py:_Processor.set_result_bucket"],
        covers=["retry", "reschedule", "ack", "nack"],
    ),
    Harness(
        name="H02-worker", scenario=h02_worker, workers=16, budget_s=900,
        params={"quick": {"eager_extras": True}, "thorough": {"eager_extras": True}},
        bounds={"behaviour of message 1": "return, raise, sleep d vs 1 s timeout (d any real in [0.5, 1.5] s), input conversion failure, failing dependency, unencodable return value, six eager responses"
                                          " (thorough: x {plain, set_result, set_exception, callback, raising callback})",
                "retry state": "any 0 <= k <= N", "recurring": "yes/no", "result storing": "on/off", "converter": "Basic / Pydantic"},
        functions=["worker.py:Worker.run", "_runner.py:_Runner._process_with_event", "_processor.py:_Processor.actor_run",
                   "dependencies/message_dependency.py:MessageDependency.ack"],
        covers=["beh-" + b for b in BEHAVIOURS] + ["finished-before-timeout", "timed-out"],
        outside=["sync actors (thread pool)", "BaseExceptions other than the eager-response signal", "failures inside broker calls", "cron"],
    ),
]
HARNESSES += [
    Harness(
        name="H02-worker-redis", scenario=h02_worker, workers=16, budget_s=900,
        params={"quick": {"eager_extras": False, "backend": "redis"}, "thorough": {"eager_extras": True, "backend": "redis"}},
        bounds={"as H02-worker": "on the real Redis broker/consumer over the fake server (quick: without the eager x extras product)"},
        functions=["connections/redis/message_broker.py:RedisMessageBroker.requeue", "connections/redis/message_broker.py:RedisMessageBroker.nack"],
        covers=["beh-return", "beh-raise", "beh-eager_reject"], stubs=["fake Redis server"]),
    Harness(
        name="H02-rabbit-retry", scenario=h02_rabbit_retry, workers=4,
        bounds={"broker": "real RabbitMQ broker/consumer on the fake channel", "retry": "retries=1 with a zero back-off (policy or eager m.retry(0))",
                "publisher confirm": "before or after the redelivery reaches the consumer", "retry outcome": "fails or succeeds"},
        functions=["connections/rabbitmq/message_broker.py:RabbitMessageBroker.requeue", "connections/rabbitmq/consumer.py:_RabbitConsumer.on_new_message"],
        covers=["rabbit-retry"], stubs=["fake AMQP server"]),
    Harness(
        name="H02-worker-serial", scenario=h02_worker, workers=16, budget_s=900, tiers=("thorough",),
        params={"thorough": {"eager_extras": True, "tasks_limit": 1}},
        bounds={"as H02-worker": "with tasks_limit=1 (the second message waits for the slot of the first)"},
        covers=["beh-return"]),
]
ASSUMPTIONS = ["in-memory brokers; virtual time; message 1 placed directly in the waiting queue with symbolic retry counters"]
HARNESSES += HARNESSES_EXTRA
HARNESSES.append(Harness(name="H02-same-instant", scenario=h02_same_instant,
                         bounds={"jobs": "2..3 processed concurrently by one worker, their reports made at the same clock reading",
                                 "kind": "failure with a retry left / recurring success / recurring failure with retries exhausted"},
                         functions=["connections/in_memory/message_broker.py:InMemoryMessageBroker.requeue", "_processor.py:_Processor.report_to_broker"],
                         covers=["same-instant"]))

from engine.harness import borrowed  # noqa: E402
HARNESSES.append(borrowed("c16", "H16-redis-chain", "H02-redis-chain"))   # retries over Redis deliveries: requeue while budget remains, refusal/nack after
HARNESSES.append(borrowed("c08", "H08-bind", "H02-argument-binding"))            # a payload that cannot be bound fails the execution: retry/nack, never ack
HARNESSES.append(borrowed("c16", "H16-eager-order", "H02-eager-order"))          # nothing more after an eager response, also when the actor handles Exception around it
