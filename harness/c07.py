"""C07 - what the producer enqueued is what the consumer receives."""
import dataclasses

from engine import strx, vtime
from engine.harness import Harness
from engine.symx import SBool, SNum, all_of, any_of
from engine.vtime import PinnedClock, SDatetime, STimedelta, real_datetime, real_timedelta
from harness import c07_fp
from harness import c07_names as N
from harness.common import SEC, T0, Y2000, Y2050, Y2100, run_async, try_consume

HUNDRED_Y = 36525 * 86400 * 10**6   # 100 julian years in µs


def same(S, label, a, b):
    """Field-wise equality of (possibly symbolic) dataclass values as assertions (no forking)."""
    if dataclasses.is_dataclass(a) and dataclasses.is_dataclass(b):
        S.check(label + ":type", type(a).__name__ == type(b).__name__)
        for f in dataclasses.fields(a):
            same(S, f"{label}.{f.name}", getattr(a, f.name), getattr(b, f.name, None))
        return
    if a is None or b is None:
        S.check(label, a is None and b is None, info=f"{a!r} vs {b!r}")
        return
    if isinstance(a, (SNum, SBool, STimedelta, SDatetime)) or isinstance(b, (SNum, SBool, STimedelta, SDatetime)):
        try:
            S.check(label, a == b, info=f"{a!r} vs {b!r}")
        except TypeError as e:
            S.check(label, False, info=str(e))
        return
    S.check(label, type(a) is type(b) and a == b, info=f"{a!r} vs {b!r}")


def sym_parameters(S, P, prefix=""):
    has = {k: S.flag(prefix + "has_" + k) for k in ("result", "result_ttl", "delay_until", "defer_by", "next_execution_time", "ttl")}
    return P.Parameters(
        execution_timeout=S.timedelta(prefix + "timeout", 0, HUNDRED_Y),
        result=P.ResultProperties(id_="res-1_x", ttl=S.timedelta(prefix + "result_ttl", 0, HUNDRED_Y) if has["result_ttl"] else None)
        if has["result"] else None,
        retries=P.RetriesProperties(max_amount=S.int(prefix + "max_amount", 0, None), already_tried=S.int(prefix + "already_tried", 0, None)),
        delay=P.DelayProperties(
            delay_until=S.datetime(prefix + "delay_until", Y2000, Y2100) if has["delay_until"] else None,
            defer_by=S.timedelta(prefix + "defer_by", 0, HUNDRED_Y) if has["defer_by"] else None,
            next_execution_time=S.datetime(prefix + "next_execution_time", Y2000, Y2100) if has["next_execution_time"] else None),
        timestamp=S.datetime(prefix + "timestamp", Y2000, Y2100),
        ttl=S.timedelta(prefix + "ttl", 0, HUNDRED_Y) if has["ttl"] else None,
    )


def h07_codec(S):
    """decode(encode(x)) == x for Parameters (and its parts), ArgsBucket, ResultBucket with symbolic leaves."""
    import repid.data._buckets as B
    import repid.data._parameters as P
    which = S.pick("class", 6)
    names = ["Parameters", "RetriesProperties", "ResultProperties", "DelayProperties", "ArgsBucket", "ResultBucket"]
    S.tag("class", names[which])
    vtime.set_clock(PinnedClock(T0))
    try:
        if which == 0:
            x = sym_parameters(S, P)
        elif which == 1:
            x = P.RetriesProperties(max_amount=S.int("max_amount", 0, None), already_tried=S.int("already_tried", 0, None))
        elif which == 2:
            x = P.ResultProperties(id_="abc_DEF-123", ttl=S.timedelta("ttl", 0, HUNDRED_Y) if S.flag("has_ttl") else None)
        elif which == 3:
            x = P.DelayProperties(delay_until=S.datetime("delay_until", Y2000, Y2100) if S.flag("has_delay_until") else None,
                                  defer_by=S.timedelta("defer_by", 0, HUNDRED_Y) if S.flag("has_defer_by") else None,
                                  next_execution_time=S.datetime("next", Y2000, Y2100) if S.flag("has_next") else None)
        elif which == 4:
            x = B.ArgsBucket(data='{"a":[1,2,{"b":"c"}]}', timestamp=S.datetime("timestamp", Y2000, Y2100),
                             ttl=S.timedelta("ttl", 0, HUNDRED_Y) if S.flag("has_ttl") else None)
        else:
            x = B.ResultBucket(data='"ok"', started_when=S.int("started", 0, None), finished_when=S.int("finished", 0, None),
                               success=S.bool("success"), exception="ValueError" if S.flag("has_exc") else None,
                               timestamp=S.datetime("timestamp", Y2000, Y2100),
                               ttl=S.timedelta("ttl", 0, HUNDRED_Y) if S.flag("has_ttl") else None)
        text = x.encode()
        S.note("encoded", text[:300])
        y = type(x).decode(text)
        S.cover("round-trip-" + names[which])
        same(S, names[which], x, y)
        S.check("decoded-type", type(y) is type(x))
    finally:
        vtime.set_clock(None)


def h07_lemma(tier):
    from engine import lemmas
    r = lemmas.l_fp()
    bad = lemmas.l_fp_concrete_selftest()
    viol = []
    out = {"engine": "z3 linear integer/real arithmetic (error model of IEEE-754 round-to-nearest)", "paths": len(r["claims"]),
           "nontrivial": len(r["claims"]), "queries": len(r["claims"]), "solver_s": sum(c["seconds"] for c in r["claims"]),
           "exhaustive": r["ok"], "covers": ["lemma"], "checks": len(r["claims"]),
           "samples": [{"decisions": [], "path_condition_tail": None, "notes": c} for c in r["claims"]],
           "functions_executed": [], "inconclusive": [] if r["ok"] else ["L-FP: " + str(r["claims"])], "errors": [],
           "violations_raw": viol}
    if bad:
        out["errors"] = [f"CPython timedelta round trip differs from the lemma's claim at N={bad}"]
    return out


PAYLOADS = None


def payload_values():
    import datetime as dt
    from dataclasses import dataclass
    import pydantic

    @dataclass
    class Point:
        x: int
        y: float

    class User(pydantic.BaseModel):
        name: str
        tags: list[str]
        born: dt.date

    import decimal
    import enum
    import uuid

    class Colour(enum.Enum):
        RED = "red"

    class Rich(pydantic.BaseModel):
        uid: uuid.UUID
        amount: decimal.Decimal
        colour: Colour
        members: set[int]
        when: dt.datetime
        wait: dt.timedelta

    import typing

    class Order(pydantic.BaseModel):
        item: str
        quantity: int = 1
        note: typing.Optional[str] = None
        request_id: str = pydantic.Field(default_factory=lambda: "generated-by-the-producer")

    return [
        ("none", None),
        ("pydantic-top-with-unset-defaults", Order(item="book")),
        ("nested", {"a": [1, 2.5, {"b": None, "c": [True, False]}], "s": "x\"y\\z é ☃", "n": -7}),
        ("dataclass", {"p": Point(1, 2.5)}),
        ("pydantic-top", User(name="n", tags=["a", "b"], born=dt.date(2001, 2, 3))),
        ("pydantic-nested", {"u": User(name="n", tags=[], born=dt.date(1999, 12, 31))}),
        ("dates", {"d": dt.date(2024, 2, 29), "t": dt.datetime(2024, 2, 29, 12, 30, 15, 123456), "td": dt.timedelta(days=3, microseconds=7)}),
        ("pydantic-rich-nested", [{"r": Rich(uid=uuid.UUID(int=7), amount=decimal.Decimal("1.50"), colour=Colour.RED, members={3},
                                             when=dt.datetime(2020, 1, 2, 3, 4, 5), wait=dt.timedelta(seconds=90))}]),
        ("lone-surrogate", {"file": "r\udce9sum\udce9.txt", "half": "\ud83d"}),     # os.fsdecode of a non-UTF-8 name; half a pair
        ("key-like-string", "__repid_payload_id "),
        ("key-like-list", ["__repid_payload_id"]),
    ]


def h07_e2e(S, backend="mem"):
    """Job.enqueue() -> broker -> consume() -> get_payload(): the consumer sees what the producer enqueued."""
    import repid.data._parameters as P
    from repid import Connection, InMemoryBucketBroker, InMemoryMessageBroker, Job
    from repid._processor import _Processor
    from repid.config import Config
    from repid.data.priorities import PrioritiesT
    from repid.message import MessageCategory

    vals = payload_values()
    pi = S.pick("payload", len(vals))
    pname, value = vals[pi]
    prio = [PrioritiesT.LOW, PrioritiesT.MEDIUM, PrioritiesT.HIGH][S.pick("priority", 3)]
    bucket = S.flag("args_through_bucket")
    # (args=None with an explicit args_id means "use the bucket that is already there" - a different feature)
    explicit_args_id = bucket and value is not None and S.flag("bucket_id_chosen_by_the_caller")
    deferred = S.flag("deferred")
    has_ttl = S.flag("has_ttl")
    has_by = S.flag("has_deferred_by")
    store = S.flag("store_result")
    S.tag("backend", backend)
    S.tag("payload", pname)
    S.tag("priority", prio.name)
    now = T0
    clock = PinnedClock(now)
    out = {}

    async def main(loop):
        if backend == "mem":
            mb, ab, rb = InMemoryMessageBroker(), InMemoryBucketBroker(), InMemoryBucketBroker(use_result_bucket=True)
        elif backend == "redis":
            from fakes import redis as fr
            srv = fr.FakeServer(clock=lambda: clock.time())
            srv2 = fr.FakeServer(clock=lambda: clock.time())
            mb, ab, rb = fr.mk_broker(srv), fr.mk_bucket_broker(srv2), fr.mk_bucket_broker(srv2, use_result_bucket=True)
        else:
            from fakes import amqp as fa
            mb, ch, srv = fa.mk_broker()
            ab, rb = InMemoryBucketBroker(), InMemoryBucketBroker(use_result_bucket=True)
        conn = Connection(mb, ab if bucket else None, rb if store else None)
        await mb.queue_declare("q_1")
        settings = dict(deferred_until=S.datetime("deferred_until", now - 86400 * SEC, Y2100) if deferred else None,   # may already be over
                        deferred_by=S.timedelta("deferred_by", SEC, HUNDRED_Y) if has_by else None,
                        retries=S.int("retries", 0, None), timeout=S.timedelta("timeout", SEC, HUNDRED_Y),
                        ttl=S.timedelta("ttl", SEC, HUNDRED_Y) if has_ttl else None)
        out["settings"] = settings
        if deferred:
            # already over, or at least a second ahead (a delay of microseconds is over before the consumer looks - RabbitMQ expiry is in ms)
            du = vtime.dt_us(settings["deferred_until"])
            S.assume(any_of(du <= now, du >= now + SEC))
            if has_by:
                # a time base that is over together with a symbolic period is nonlinear ((now - base) // period): decided under C19
                # (H19g) on its own; here it made one z3 query of this harness run into its time limit now and then
                S.assume(du >= now + SEC)
        job = Job("my-job_1", queue="q_1", priority=prio, id_="id-1_A", **settings,
                  args=value, args_ttl=real_timedelta(hours=1) if bucket else None,
                  **({"args_id": "args-of-id-1_A"} if bucket and explicit_args_id else {}),
                  result_id="res-9", result_ttl=S.timedelta("result_ttl", SEC, HUNDRED_Y) if store else None,
                  _connection=conn)
        sent = await job.enqueue()
        if bucket:
            # another job that happens to carry the same explicit id, on another queue, with other arguments
            await mb.queue_declare("q_2")
            await Job("other-job", queue="q_2", id_="id-1_A", args={"other": True}, _connection=conn).enqueue()
        delayed = sent[2].compute_next_execution_time is not None     # decided on concrete/symbolic values: a past deferred_until alone delays nothing
        if not isinstance(delayed, bool):
            delayed = bool(delayed)
        cat = MessageCategory.DELAYED if delayed else MessageCategory.NORMAL
        cons = mb.get_consumer("q_1", ["my-job_1"], None, cat)
        if backend == "redis":
            cons.POLLING_WAIT = 0
            got = await cons.consume_or_none()
        else:
            await cons.start()
            got = await try_consume(cons, timeout=1)
        if got is None and delayed and backend == "rabbit":
            # a delay below RabbitMQ's millisecond resolution is over at once: the message is in the main queue already
            await cons.finish()
            cons = mb.get_consumer("q_1", ["my-job_1"], None, MessageCategory.NORMAL)
            await cons.start()
            got = await try_consume(cons, timeout=2)
        out["sent"], out["got"] = sent, got
        if got is not None:
            out["payload"] = await _Processor(conn).get_payload(got[1])
            # a later delivery of the same message (retry, recurring run, redelivery after a stop) resolves the same reference again
            out["payload_again"] = await _Processor(conn).get_payload(got[1])
        out["serialized"] = None if value is None else Config.SERIALIZER(value)
        out["again"] = None
        if got is not None and not delayed and not bucket and S.flag("then_requeued_with_another_payload"):
            # the holder puts the message back with a changed payload (Message.raw_payload = ...; reschedule()/retry()):
            # the next consumer receives that payload
            await mb.requeue(got[0], "CHANGED:" + got[1], got[2])
            if backend == "redis":
                again = await cons.consume_or_none()
            else:
                again = await try_consume(cons, timeout=1)
            out["again"] = ("CHANGED:" + got[1], again)

    run_async(main, clock=clock)
    sent, got = out["sent"], out["got"]
    S.check("message-received", got is not None)
    if got is None:
        return
    S.cover("received")
    same(S, "key", sent[0], got[0])
    S.check("payload-as-enqueued", out["payload"] == sent[1], info=f"{out['payload']!r} vs {sent[1]!r}")
    S.check("payload-is-the-serialised-arguments", out["payload"] == (out["serialized"] or ""))
    S.check("payload-as-enqueued-on-a-later-delivery", out["payload_again"] == out["payload"], info=f"second resolution of the same reference: {out['payload_again']!r}")
    import json
    import pydantic
    if isinstance(value, pydantic.BaseModel):
        # independent of repid's serializer: the model's own complete JSON form (every field, set or defaulted)
        S.check("payload-carries-every-field-of-the-model", json.loads(out["payload"]) == json.loads(value.model_dump_json()),
                info=f"{out['payload']!r} vs {value.model_dump_json()!r}")
    same(S, "parameters", sent[2], got[2])
    # ... and they are the job's settings, stated independently of how Job builds them
    st, gp = out["settings"], got[2]
    S.check("parameters-carry-the-jobs-settings",
            all_of(gp.delay.delay_until == st["deferred_until"] if st["deferred_until"] is not None else gp.delay.delay_until is None,
                   gp.delay.defer_by == st["deferred_by"] if st["deferred_by"] is not None else gp.delay.defer_by is None,
                   gp.retries.max_amount == st["retries"], gp.execution_timeout == st["timeout"],
                   gp.ttl == st["ttl"] if st["ttl"] is not None else gp.ttl is None),
            info=f"received delay={gp.delay!r} retries={gp.retries!r} timeout={gp.execution_timeout!r} ttl={gp.ttl!r}")
    if out["again"] is not None:
        want, again = out["again"]
        S.cover("requeued-with-another-payload")
        S.check("requeued-payload-is-what-the-next-consumer-receives", again is not None and again[1] == want,
                info=f"{backend}: requeued {want!r}, next consumer received {None if again is None else again[1]!r}")


def h07_rabbit_priority(S):
    """RabbitMQ: any priority a RoutingKey accepts and AMQP can carry (0..255) comes back as it was sent, also after a requeue."""
    from fakes import amqp as fa
    from repid.data._key import RoutingKey
    import repid.data._parameters as P

    p = [0, 1, 9, 10, 42, 255][S.pick("priority", 6)]
    requeued = S.flag("requeued_once")
    out = {}

    async def main(loop):
        br, ch, srv = fa.mk_broker()
        await br.queue_declare("default")
        key = RoutingKey(topic="job", queue="default", id_="m1", priority=p)
        params = P.Parameters(timestamp=P.datetime.now())
        await br.enqueue(key, "p", params)
        cons = br.get_consumer("default", ["job"])
        await cons.start()
        got = await try_consume(cons, timeout=1)
        if got is not None and requeued:
            await br.requeue(got[0], "p2", got[2])
            got = await try_consume(cons, timeout=1)
        out["got"] = got

    run_async(main, clock=PinnedClock(T0))
    S.cover("priority-round-trip")
    S.check("message-received", out["got"] is not None)
    if out["got"] is not None:
        S.check("key.priority", out["got"][0].priority == p, info=f"sent with priority {p}, received with {out['got'][0].priority}")


def h07_waiting_consumer(S):
    """A consumer is already waiting while Job.enqueue() runs; storing the argument bucket takes time."""
    import asyncio
    from fractions import Fraction
    from repid import Connection, InMemoryBucketBroker, InMemoryMessageBroker, Job
    from repid._processor import _Processor

    lat = S.real("bucket_store_latency_s", 0, Fraction(50, 1000))
    bucket = S.flag("args_through_bucket")
    out = {}

    async def main(loop):
        mb, ab = InMemoryMessageBroker(), InMemoryBucketBroker()
        conn = Connection(mb, ab if bucket else None)
        await mb.queue_declare("default")
        orig = ab.store_bucket

        async def slow_store(*a, **k):
            await asyncio.sleep(lat)
            return await orig(*a, **k)

        ab.store_bucket = slow_store
        cons = mb.get_consumer("default", ["job"])
        await cons.start()
        proc = _Processor(conn)

        async def consumer():
            got = await cons.consume()
            out["payload"] = await proc.get_payload(got[1])

        t = asyncio.create_task(consumer())
        await asyncio.sleep(Fraction(5, 1000))
        sent = await Job("job", args={"x": [1, 2, 3]}, id_="m1", _connection=conn).enqueue()
        await asyncio.wait_for(t, timeout=2)
        out["sent"] = sent

    run_async(main)
    S.cover("waiting-consumer")
    S.check("consumer-sees-the-arguments", out["payload"] == out["sent"][1], info=f"{out['payload']!r} vs {out['sent'][1]!r}")


def _e2e(backend):
    def scen(S):
        return h07_e2e(S, backend)
    scen.__name__ = "h07_e2e_" + backend
    return scen


HARNESSES = [
    Harness(name="H07-codec", scenario=h07_codec, workers=8,
            bounds={"leaves": "every leaf symbolic: durations [0, 100 julian years] in µs, instants 2000..2100 in µs, counters any int >= 0, flags; every optional field present or absent"},
            functions=["data/_parameters.py:Parameters.encode", "data/_parameters.py:Parameters.decode", "data/_buckets.py:ResultBucket.decode",
                       "_utils/json_encoder.py:_RepidJSONEncoder.default"],
            covers=["round-trip-Parameters", "round-trip-ArgsBucket", "round-trip-ResultBucket", "round-trip-DelayProperties"],
            stubs=["JSON text is crossed by sentinel strings standing for symbolic leaves (real C encoder/decoder run on the rest); "
                   "float seconds are exact reals, justified by lemma L-FP; datetime.isoformat/fromisoformat round trip trusted (L-ISO)"]),
    Harness(name="L-FP", scenario=None, kind="custom", custom=h07_lemma, params={"replay": lambda v: {"reproduced": False, "failed": []}},
            bounds={"N": "[0, 100 julian years] µs", "model": "IEEE-754 round-to-nearest half-ulp bounds: 2^-22 s on N/1e6 (< 2^32 s), 2^-34 on the fractional product (< 2^20)"},
            covers=["lemma"], stubs=["bit-precise QF_BVFP encoding did not finish in 15 min in either solver (design phase); the claim rests on the error model"]),
    Harness(name="H07-rabbit-priority", scenario=h07_rabbit_priority,
            bounds={"priority": "0, 1, 9, 10, 42, 255 (the AMQP priority property is one byte; RoutingKey accepts any int >= 0)", "path": "enqueue -> consume, optionally requeue -> consume"},
            functions=["connections/rabbitmq/message_broker.py:RabbitMessageBroker.enqueue", "connections/rabbitmq/consumer.py:_RabbitConsumer.on_new_message"],
            covers=["priority-round-trip"], stubs=["fake AMQP channel"]),
    Harness(name="H07-codec-fp", scenario=None, kind="custom", custom=c07_fp.run, params={"replay": c07_fp.rep},
            bounds={"N": "[0, 100 julian years] µs per duration field (8 fields of Parameters, ResultProperties, DelayProperties, ArgsBucket, ResultBucket)",
                    "time cap": "60 s (quick) / 300 s (thorough) per bit-precise query; none is needed while every field has the lemma's shape"},
            functions=["data/_parameters.py:Parameters.decode", "data/_parameters.py:DelayProperties.decode", "data/_parameters.py:ResultProperties.decode",
                       "data/_buckets.py:ArgsBucket.decode", "data/_buckets.py:ResultBucket.decode"],
            covers=["lemma-shape"],
            stubs=["CPython's timedelta constructor (delta_new/accum) and int/int true division modelled on z3 FloatingPoint/BitVec terms, checked against the "
                   "real ones on boundary values at every run; JSON number text <-> double is the identity (shortest repr round trip)"],
            outside=["float kernels that branch on a symbolic value or use operations the proxies lack are reported as inconclusive, not as holding"]),
    strx.as_harness("H07-names-redis", N.names_redis, N.replay_names_redis,
                    bounds={"queue, topic": "every string in L(VALID_NAME) (unbounded length)", "id": "every string in L(VALID_ID)", "priority": "any int >= 0"},
                    covers=["parsed-full", "parsed-short", "queue-names"]),
    strx.as_harness("H07-names-injective", N.names_injective, N.replay_names_injective,
                    bounds={"two routing keys": "all components as above, unbounded"}, covers=["injectivity"]),
    strx.as_harness("H07-marker", N.marker, N.replay_marker,
                    bounds={"id": "every string in L(VALID_ID)", "foreign payload": "compact JSON texts (scalars, lists nested once, flat dicts) up to 40 chars not starting with the reserved marker"},
                    covers=["constructed", "foreign-payload"],
                    stubs=["construct() runs the real JSON encoder on a placeholder id which is then replaced by the symbolic id"]),
    Harness(name="H07-e2e-mem", scenario=_e2e("mem"), workers=16, budget_s=900,
            bounds={"argument values": "11 concrete representatives (nested JSON, dataclass, pydantic models, dates/durations, lone surrogates, marker-like strings)",
                    "job settings": "priority in {LOW, MEDIUM, HIGH}; timeout/ttl/deferred_by/result_ttl any µs in [1 s, 100 y]; deferred_until any future µs; retries any int; every optional setting on/off; inline or bucket transport"},
            functions=["job.py:Job.enqueue", "_processor.py:_Processor.get_payload"], covers=["received"]),
    Harness(name="H07-waiting-consumer", scenario=h07_waiting_consumer, workers=4,
            bounds={"consumer": "already blocked in consume() when Job.enqueue() starts", "bucket store latency": "any real in [0, 50 ms]", "transport": "inline / bucket"},
            functions=["job.py:Job.enqueue", "job.py:Job._construct_args", "_processor.py:_Processor.get_payload"], covers=["waiting-consumer"]),
    Harness(name="H07-e2e-redis", scenario=_e2e("redis"), workers=16, budget_s=900,
            bounds={"as H07-e2e-mem": "through RedisMessageBroker/RedisBucketBroker on fake servers"},
            functions=["connections/redis/message_broker.py:RedisMessageBroker.enqueue", "connections/redis/consumer.py:_RedisConsumer.consume_or_none"],
            covers=["received"], stubs=["fake Redis server"]),
    Harness(name="H07-e2e-rabbit", scenario=_e2e("rabbit"), workers=16, budget_s=900,
            bounds={"as H07-e2e-mem": "through RabbitMessageBroker/_RabbitConsumer on a fake AMQP channel"},
            functions=["connections/rabbitmq/message_broker.py:RabbitMessageBroker.enqueue", "connections/rabbitmq/consumer.py:_RabbitConsumer.on_new_message"],
            covers=["received"], stubs=["fake AMQP channel"]),
]
ASSUMPTIONS = ["'all argument values' is not claimed: JSON text is a stub, argument values are concrete representatives; names, ids, priorities and every parameter leaf are symbolic",
               "cron strings, tz-aware datetimes and custom Config overrides are outside the claim"]

from engine.harness import borrowed  # noqa: E402
HARNESSES.append(borrowed("c11", "H11-worker-redis", "H07-redis-topic-prefix"))   # a name that extends another survives the Redis short-name filter
HARNESSES.append(borrowed("c08", "H08-bucket-reuse", "H07-bucket-reuse"))   # arguments through a bucket arrive as enqueued, also when a bucket id is used again
