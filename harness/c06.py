"""C06 - recurring jobs: exactly one successor per run, on a steady cadence."""
from __future__ import annotations

from engine import vtime
from engine.harness import Harness
from engine.symx import all_of, any_of, implies, neg
from engine.vtime import PinnedClock, real_timedelta
from harness.common import SEC, Y1970, Y2000, Y2050, Y2100, Recorder, mem_places, mk_actor, place_names, run_async, try_consume, us_of
from harness.steps import HUNDRED_Y, process_step


def h06_step(S):
    """One completed iteration from an arbitrary valid state of a recurring message."""
    o = process_step(S, policy_kind=1, explicit_retry=True, ttl=True, eager_reschedule=True)
    if not o.recurring:
        S.cover("not-recurring")
        return
    completed = (not o.fail) or (not (o.k < o.N))
    ops = [c["op"] for c in o.calls]
    if not completed:
        S.cover("retry-inside-iteration")
        S.check("retry-keeps-period-settings", ops == ["requeue"] and
                o.calls[0]["args"][2].delay.defer_by == o.params.delay.defer_by)
        return
    S.cover("iteration-completed")
    S.tag("first_run", not o.has_S)
    S.tag("deferred_until", bool(o.has_du))
    S.check("exactly-one-successor-action", ops == ["requeue"], info=str(ops))
    if ops != ["requeue"]:
        return
    key, payload, newp = o.calls[0]["args"][:3]
    S.check("same-id", key.id_ == "m1")
    S.check("one-copy-scheduled", place_names(o.places, "m1") == ["delayed"], info=str(place_names(o.places, "m1")))
    S.check("retry-counter-reset", newp.retries.already_tried == 0)
    S.check("retry-budget-kept", newp.retries.max_amount == o.N)
    S.check("ttl-clock-restarted", us_of(newp.timestamp) == o.now)
    S.check("period-kept", newp.delay.defer_by == o.params.delay.defer_by)
    nxt = newp.delay.next_execution_time
    S.check("successor-has-a-time", nxt is not None)
    if nxt is None:
        return
    Sn = us_of(nxt)
    placed_at = o.places["m1"][0][2]
    S.check("placed-at-its-scheduled-time", us_of(placed_at) == Sn)
    S.check("strictly-in-the-future", Sn > o.now)
    S.check("at-most-one-period-ahead", Sn <= o.now + o.p)
    # the cadence stays on the grid of its time base: previous slot, else deferred_until, else creation time
    base = o.Sched if o.has_S else (o.du if o.has_du else o.ts)
    S.check("whole-periods-after-time-base", (Sn - base) % o.p == 0)
    # scheduled time of the iteration that just ran
    if o.has_S:
        S.check("one-full-period-after-previous-slot", Sn >= o.Sched + o.p)
    elif o.has_du:
        # first run of a job deferred until `du` (it was honoured: du was ahead at enqueue)
        S.check("one-full-period-after-previous-slot", Sn >= o.du + o.p)
    else:
        # first run of a plain periodic job: it ran at some slot ts + j*p (j >= 1) that was due
        j = S.int("first_slot_index", 1, None)
        first = o.ts + j * o.p
        S.assume(first <= o.now)
        S.check("one-full-period-after-previous-slot", Sn >= first + o.p)
    # delivery of the successor: not before its time
    listen = o.now + o.delta
    if o.delivered is not None:
        S.cover("successor-delivered")
        S.check("successor-not-delivered-early", listen >= Sn)
        S.check("successor-counter-zero-on-delivery", o.delivered[2].retries.already_tried == 0)
    else:
        S.cover("successor-held-back")
        # its time-to-live runs from this rescheduling, not from anything earlier (deferred_until, first creation)
        expired = (listen > o.now + o.ttl) if o.has_ttl else False
        S.check("successor-held-only-while-not-due", any_of(listen <= Sn, expired),
                info="the next iteration is due, within its restarted time-to-live, and was not delivered")


def h06_chain(S, iterations=3):
    """Consecutive iterations from a fresh Job.enqueue(): reachability complement of H06-step."""
    from repid import Connection, InMemoryMessageBroker, Job
    from repid._processor import _Processor

    p = S.int("period", SEC, 3600 * SEC)
    has_du = S.flag("has_deferred_until")
    e = S.int("enqueue_time", Y2000, Y2050)
    du = S.int("deferred_until", Y2000, Y2050) if has_du else None
    N = S.int("retries", 0, 1)
    fin = [S.int(f"finish{i}", Y2000, Y2100) for i in range(iterations)]
    fails = [S.bool(f"fail{i}") for i in range(2 * iterations)]
    clock = PinnedClock(e)
    sched = []
    out = {"ok": True}
    S.tag("deferred_until", has_du)

    async def main(loop):
        broker = InMemoryMessageBroker()
        conn = Connection(broker)
        await conn.connect()
        await broker.queue_declare("default")
        job = Job("job", deferred_by=S.timedelta_us(p), deferred_until=S.datetime_us(du) if has_du else None,
                  retries=N, id_="m1", _connection=conn)
        await job.enqueue()
        proc = _Processor(conn)
        runs = []

        async def fn():
            if fails[len(runs) - 1]:
                raise ValueError("x")

        actor = mk_actor(fn, retry_policy=lambda retry_number=1: real_timedelta(0))
        q = broker.queues["default"]
        cons = broker.get_consumer("default", ["job"])
        await cons.start()
        prev_finish = e
        for i in range(iterations):
            pl = mem_places(broker)
            S.check("exactly-one-message", [x[0] for x in pl.get("m1", [])] == ["delayed"], info=str(place_names(pl, "m1")))
            if [x[0] for x in pl.get("m1", [])] != ["delayed"]:
                out["ok"] = False
                return
            Si = us_of(pl["m1"][0][2])
            sched.append(Si)
            if i == 0:
                if has_du and du > e:
                    S.cover("first-run-deferred")
                    S.check("first-run-honours-deferred_until", Si == du)
                else:
                    S.check("first-slot-in-future", Si > e)
                    S.check("first-slot-within-a-period", Si <= e + p)
            else:
                S.check("strictly-in-the-future", Si > prev_finish)
                S.check("at-most-one-period-ahead", Si <= prev_finish + p)
                S.check("one-full-period-after-previous-slot", Si >= sched[i - 1] + p,
                        info="iteration %d" % i)
            # the iteration is delivered once due and finishes at fin[i]
            S.assume(fin[i] > Si)
            S.assume(fin[i] >= prev_finish)
            clock.set(fin[i])
            got = await try_consume(cons)
            S.check("due-message-delivered", got is not None)
            if got is None:
                out["ok"] = False
                return
            key, payload, params = got
            # run attempts until the iteration completes (retry back-off is zero here)
            for attempt in range(3):
                runs.append(1)
                await proc.process(actor, key, payload, params)
                pl2 = mem_places(broker)
                done = params.retries.already_tried >= N or not fails[len(runs) - 1]
                if done:
                    break
                # retry: message is delayed until now (+0); deliver it again at the same instant + 1µs
                clock.set(fin[i] + 1 + attempt)
                got = await try_consume(cons)
                if got is None:
                    S.check("retry-delivered", False)
                    out["ok"] = False
                    return
                key, payload, params = got
            prev_finish = clock.us
        S.cover("chain-completed")

    run_async(main, clock=clock)


HARNESSES = [
    Harness(
        name="H06-step", scenario=h06_step, workers=8,
        bounds={"period": "[1 s, 100 y]", "clock, timestamps, previous slot": "any microsecond (2070..2100 / 1970..2100)",
                "retry state": "any 0 <= k <= N", "outcome": "success or failure"},
        functions=["_processor.py:_Processor.report_to_broker", "data/_parameters.py:Parameters._prepare_reschedule",
                   "data/_parameters.py:Parameters.compute_next_execution_time"],
        covers=["iteration-completed", "retry-inside-iteration", "successor-delivered", "successor-held-back"],
        outside=["cron schedules", "delivery by Redis/RabbitMQ (C05)"],
        stubs=["state constructed directly: the iteration's message sits in the in-memory processing set; the pre-state "
               "invariant (previous slot <= now; first slot = timestamp + j*period) is what H06-chain reaches from a fresh Job"],
    ),
    Harness(
        name="H06-chain", scenario=h06_chain, workers=8,
        params={"quick": {"iterations": 3}, "thorough": {"iterations": 4}},
        bounds={"iterations": "3 quick / 4 thorough", "period": "[1 s, 1 h]", "finish instants": "any non-decreasing, each after its slot",
                "retries": "[0, 1] with any failure pattern"},
        functions=["job.py:Job.enqueue", "_processor.py:_Processor.process", "connections/in_memory/consumer.py:_InMemoryConsumer.consume"],
        covers=["chain-completed", "first-run-deferred"],
    ),
]


def h06_rabbit_iteration(S):
    """RabbitMQ, a recurring job whose iteration fails once and is retried at once: after the iteration (and after the
    worker's channel is gone) exactly one message with that id exists - the next iteration, waiting for its slot."""
    import asyncio
    from fractions import Fraction
    from repid import Job, MessageDependency, Router, Worker
    from repid.converter import BasicConverter
    from harness.common import World

    confirm = [0, 3][S.pick("confirm_after_delivery", 2)]
    succeed_on_retry = S.flag("retry_succeeds")
    runs = []
    out = {}

    async def main(loop):
        w = World(backend="rabbit")
        w.srv.confirm_turns = confirm
        await w.open(record=False)
        r = Router()

        from harness.actors import counting_failer_fn
        r.actor(name="job", converter=BasicConverter, retry_policy=lambda retry_number=1: real_timedelta(0))(counting_failer_fn(runs, succeed_on_retry))

        await Job("job", id_="m1", retries=1, deferred_by=real_timedelta(hours=1), _connection=w.conn).enqueue()
        # make the first iteration due now: move it from the delayed queue to the main one, as the broker would on expiry
        dq = w.srv.queues["default:delayed"]
        for m in list(dq.ready):
            w.srv._expire(dq, m, loop)
        worker = Worker(routers=[r], handle_signals=[], _connection=w.conn, graceful_shutdown_time=1.0, messages_limit=2)
        try:
            await asyncio.wait_for(worker.run(), timeout=20)
            out["returned"] = True
        except asyncio.TimeoutError:
            out["returned"] = False
        await asyncio.sleep(Fraction(1, 2))
        for ch in list(w.srv.channels):
            ch.close()                      # the worker process ends: the server takes back whatever was not settled
        await asyncio.sleep(Fraction(1, 2))
        out["places"] = {i: sorted(p[0] for p in v) for i, v in w.places().items()}
        pl = w.places().get("m1", [])
        out["params"] = [p[1].parameters for p in pl]

    run_async(main)
    S.cover("rabbit-iteration")
    S.check("worker-returns", out["returned"], info=f"runs={runs}")
    S.check("attempts-of-the-iteration", runs == [0, 1], info=str(runs))
    S.check("exactly-one-successor", out["places"].get("m1", []) == ["delayed"],
            info=f"confirm after delivery={bool(confirm)}: after the iteration the job is in {out['places'].get('m1')}, expected ['delayed']")
    if out["places"].get("m1", []) == ["delayed"]:
        S.check("successor-starts-with-counter-zero", out["params"][0].retries.already_tried == 0)


from harness.c05 import h05_rabbit, h05_redis  # noqa: E402

HARNESSES += [
    Harness(name="H06-rabbit-reschedule", scenario=h05_rabbit, params={"quick": {"via": "requeue"}, "thorough": {"via": "requeue"}},
            bounds={"next slot, publish instant": "any µs in 2000..2100 (periods and deferred starts from sub-second to 100 years)"},
            functions=["connections/rabbitmq/message_broker.py:RabbitMessageBroker.requeue"], covers=["published-delayed"],
            outside=["RabbitMQ's own expiry timing (server)"], stubs=["fake AMQP channel records the publish"]),
    Harness(name="H06-redis-handback", scenario=h05_redis, workers=4, params={"quick": {"via": "reject"}, "thorough": {"via": "reject"}},
            bounds={"as H05-redis-reject": "a scheduled iteration (any slot, any clock position) that somebody takes and hands back (reject) keeps its slot: "
                                           "not delivered to a normal consumer before it"},
            functions=["connections/redis/message_broker.py:RedisMessageBroker.reject"], covers=["delivered", "held-back"], stubs=["fake Redis server"]),
    Harness(name="H06-redis-reschedule", scenario=h05_redis, workers=4, params={"quick": {"via": "requeue"}, "thorough": {"via": "requeue"}},
            bounds={"next slot, requeue instant, consume instant": "any µs in 2000..2050"},
            functions=["connections/redis/message_broker.py:RedisMessageBroker.requeue"], covers=["delivered", "held-back"], stubs=["fake Redis server"]),
]
from harness.c03 import h03_stop  # noqa: E402

HARNESSES.append(
    Harness(name="H06-stop-during-reschedule", scenario=h03_stop, workers=16, budget_s=900,
            params={"quick": {"n_msgs": 1, "kinds": (3,)}, "thorough": {"n_msgs": 2, "kinds": (3,)}},
            bounds={"as H03-stop-mem": "a recurring job: stop signal at every loop step 1..90 (also inside the requeue), any graceful period in [0, 8 ms]: "
                                      "never two copies, a changed counter/slot only through the one requeue"},
            functions=["_runner.py:_Runner._process_with_event", "_processor.py:_Processor.process"],
            covers=["stopped", "requeued"],
            stubs=["signal delivery = the captured handler is called at the start of loop iteration k"]))
from harness.c03 import h03_stop_steps  # noqa: E402

HARNESSES.append(
    Harness(name="H06-stop-steps-during-reschedule", scenario=h03_stop_steps, workers=16, budget_s=900,
            params={"quick": {"n_msgs": 1, "kinds": (3,), "max_steps": 12}, "thorough": {"n_msgs": 2, "kinds": (3,), "max_steps": 20}},
            bounds={"as H03-stop-steps": "a recurring job: the stop request arrives while the actor runs, the actor ends 0..12 / 0..20 loop steps later, graceful period 0"},
            functions=["_runner.py:_Runner._process_with_event", "_processor.py:_Processor.process"],
            covers=["stopped"],
            stubs=["signal delivery = the captured handler is called from inside the actor"]))
ASSUMPTIONS = ["in-memory broker; iteration finish instants are free symbolic values constrained only by 'after its slot, non-decreasing'"]
HARNESSES.append(Harness(
    name="H06-rabbit-iteration", scenario=h06_rabbit_iteration, workers=4,
    bounds={"job": "deferred_by 1 h, retries 1, zero back-off; first attempt fails, the retry fails or succeeds", "publisher confirm": "before or 3 loop turns after the delivery it causes",
            "afterwards": "the worker's channel is closed (unsettled deliveries go back)"},
    functions=["connections/rabbitmq/message_broker.py:RabbitMessageBroker.requeue", "connections/rabbitmq/consumer.py:_RabbitConsumer.on_new_message",
               "_processor.py:_Processor.report_to_broker"],
    covers=["rabbit-iteration"], stubs=["fake AMQP server; the first expiry is performed by the harness"]))

from engine.harness import borrowed  # noqa: E402
HARNESSES.append(borrowed("c02", "H02-worker", "H06-worker-outcomes"))   # every outcome of a recurring job's iteration ends in a report to the broker
HARNESSES.append(borrowed("c05", "H05-job-deferred", "H06-first-run"))           # the first run honours deferred_until, also after a look through the delayed category
