"""Actor bodies that take dependencies (no `from __future__ import annotations` here: repid reads the annotations at run time)."""
from repid import MessageDependency


def explicit_retry_fn(runs, fail):
    """An actor that expresses its failure by asking for a retry itself (await message.retry())."""

    async def fn(m: MessageDependency):
        runs.append(1)
        if fail:
            await m.retry()
        return "ok"

    return fn


def eager_reschedule_fn(runs):
    """A recurring actor that answers itself with reschedule() after registering a callback that fails."""

    async def fn(m: MessageDependency):
        runs.append(1)

        async def failing_callback():
            raise RuntimeError("callback {0} failed")

        m.add_callback(failing_callback)
        await m.reschedule()

    return fn


def cpu_bound_provider():
    """A module-level (picklable) provider, as run_in_process=True requires."""
    return "from-the-process-pool"


def counting_failer_fn(runs, succeed_on_retry):
    """Records the attempt counter it was delivered with; fails on the first attempt, later ones fail or succeed."""

    async def fn(m: MessageDependency):
        runs.append(m.parameters.retries.already_tried)
        if len(runs) == 1 or not succeed_on_retry:
            raise ValueError("x")

    return fn


def counting_sleeper_fn(runs, seconds):
    """Records the attempt counter it was delivered with, works for a while, fails."""
    import asyncio

    async def fn(m: MessageDependency):
        runs.append(m.parameters.retries.already_tried)
        await asyncio.sleep(seconds)
        raise ValueError("x")

    return fn
