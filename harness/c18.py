"""C18 - dependencies resolve to exactly what their providers return."""
import asyncio
from typing import Annotated

from engine.harness import Harness
from engine.symx import SNum
from engine.vtime import PinnedClock, real_timedelta
from harness.common import T0, Recorder, World, mem_places, mk_actor, place_names, run_async

SHAPES = ["leaf", "chain2", "chain3", "fan2", "shared", "two-deps-and-message"]


class Node:
    STYLE = "plain"      # how providers with sub-dependencies declare them (set per scenario)

    def __init__(self, name, a, b, subs, is_async, fails=False):
        self.name, self.a, self.b, self.subs, self.is_async, self.fails = name, a, b, subs, is_async, fails
        self.calls = []
        self.dep = None
        self.slow = 0          # an async provider may take a moment (set per scenario)

    def value(self):
        """oracle: independent nested evaluation"""
        tot = 0
        for i, (_, sub) in enumerate(self.subs):
            tot = tot + (i + 1) * sub.value()          # order-sensitive: a swapped pair of values shows
        return self.a * tot + self.b

    def build(self):
        from repid.dependencies import Depends
        plist = [f"{pname}: Annotated[int, subs[{i}].dep]" for i, (pname, sub) in enumerate(self.subs)]
        style = Node.STYLE if self.subs else "plain"
        if style == "keyword-only":
            plist = ["*"] + plist
        elif style == "ordinary-default-between":
            # an ordinary parameter with a default between the dependencies (the later ones then need defaults as well)
            plist = plist[:1] + ["verbose: int = 7"] + [x + " = 0" for x in plist[1:]]
        params = ", ".join(plist)
        args = " + ".join(f"{i + 1} * {pname}" for i, (pname, _) in enumerate(self.subs)) or "0"
        pnames = ", ".join([f"{p}={p}" for p, _ in self.subs] + (["verbose=verbose"] if style == "ordinary-default-between" else []))
        src = (("async def" if self.is_async else "def") + f" provider({params}):\n"
               + ("    await asyncio.sleep(node.slow)\n" if self.is_async else "") +
               f"    node.calls.append(dict({pnames}))\n"
               f"    if node.fails:\n        raise RuntimeError('provider {self.name} failed')\n"
               f"    return node.a * ({args}) + node.b\n")
        import asyncio
        ns = {"Annotated": Annotated, "subs": [s for _, s in self.subs], "node": self, "asyncio": asyncio}
        exec(src, ns)  # noqa: S102
        self.fn = ns["provider"]
        self.dep = Depends(self.fn)
        return self.dep


def make_graph(S, shape):
    def leaf(name):
        n = Node(name, 1, S.int("c_" + name, None, None), [], S.flag("async_" + name))
        if n.is_async and shape == "fan2" and S.flag("slow_" + name):
            from fractions import Fraction
            n.slow = Fraction(1, 1000)      # still running when a sibling declared later has already failed
        return n

    def inner(name, a, subs):
        return Node(name, a, S.int("b_" + name, None, None), subs, S.flag("async_" + name))

    if shape == "leaf":
        top = leaf("L")
        nodes = [top]
        deps = {"d": top}
    elif shape == "chain2":
        l = leaf("L")
        top = inner("M", 2, [("x", l)])
        nodes = [l, top]
        deps = {"d": top}
    elif shape == "chain3":
        l = leaf("L")
        m = inner("M", 2, [("x", l)])
        top = inner("T", 3, [("y", m)])
        nodes = [l, m, top]
        deps = {"d": top}
    elif shape == "fan2":
        l1, l2 = leaf("L1"), leaf("L2")
        top = inner("T", 2, [("x", l1), ("y", l2)])
        nodes = [l1, l2, top]
        deps = {"d": top}
    elif shape == "shared":
        sh = leaf("S")
        top = inner("T", 2, [("x", sh), ("y", sh)])
        nodes = [sh, top]
        deps = {"d1": top, "d2": sh}
    else:
        l1 = leaf("L1")
        m = inner("M", 2, [("x", l1)])
        l2 = leaf("L2")
        nodes = [l1, m, l2]
        deps = {"d1": m, "d2": l2}
    for n in nodes:
        n.build()
    return nodes, deps


def h18(S):
    import repid.data._parameters as P
    from repid import MessageDependency
    from repid._processor import _Processor
    from repid.connections.in_memory.utils import Message as MemMessage
    from repid.converter import BasicConverter, PydanticConverter
    from repid.data._key import RoutingKey

    shape = SHAPES[S.pick("shape", len(SHAPES))]
    conv = [BasicConverter, PydanticConverter][S.pick("converter", 2)]
    n_over = S.pick("overrides", 3)
    # how providers declare their sub-dependencies is varied on the graphs without overrides (the two dimensions are independent)
    Node.STYLE = (["plain", "keyword-only", "ordinary-default-between"][S.pick("provider_signature", 3)]
                  if shape != "leaf" and n_over == 0 else "plain")
    S.tag("provider_signature", Node.STYLE)
    S.tag("shape", shape)
    S.tag("converter", conv.__name__)
    nodes, deps = make_graph(S, shape)
    overridden = []
    for k in range(n_over):
        tgt = nodes[S.pick(f"override_target{k}", len(nodes))]
        newc = S.int(f"override_value{k}", None, None)
        is_async = S.flag(f"override_async{k}")
        calls = tgt.calls

        if is_async:
            async def newp(newc=newc, calls=calls):
                calls.append("override")
                return newc
        else:
            def newp(newc=newc, calls=calls):
                calls.append("override")
                return newc
        tgt.dep.override(newp)
        tgt.a, tgt.b, tgt.subs = 1, newc, []      # the oracle follows: replaced everywhere from now on
        overridden.append(tgt.name)
    failing = None
    if S.flag("a_provider_fails"):
        failing = nodes[S.pick("failing_node", len(nodes))]
        if failing.name in overridden:
            failing = None
        else:
            failing.fails = True
    with_msg = shape == "two-deps-and-message"
    payload_arg = S.flag("payload_argument")
    received = []
    out = {}

    params_src = [f"{name}: Annotated[int, deps[{name!r}].dep]" for name in deps]
    if with_msg:
        params_src.append("msg: MessageDependency")
    if payload_arg:
        params_src.insert(0, "p: int")
    names = list(deps) + (["msg"] if with_msg else []) + (["p"] if payload_arg else [])
    src = f"async def actor({', '.join(params_src)}):\n    received.append(dict({', '.join(f'{n}={n}' for n in names)}))\n    return 1\n"
    ns = {"Annotated": Annotated, "deps": deps, "MessageDependency": MessageDependency, "received": received}
    exec(src, ns)  # noqa: S102
    S.note("actor", src.splitlines()[0])

    async def main(loop):
        w = World()
        await w.open(record=True)
        key = RoutingKey(topic="job", queue="default", id_="m1")
        params = P.Parameters(retries=P.RetriesProperties(max_amount=1, already_tried=0), timestamp=P.datetime.now())
        payload = '{"p": 41}' if payload_arg else ""
        w.broker.queues["default"].processing.add(MemMessage(key, payload, params))
        actor = mk_actor(ns["actor"], converter=conv, retry_policy=lambda retry_number=1: real_timedelta(hours=1))
        proc = _Processor(w.conn)
        import asyncio
        try:
            await proc.process(actor, key, payload, params)
            out["escaped"] = None
        except asyncio.CancelledError:
            out["escaped"] = "CancelledError"     # nobody cancelled the processing task
        out["ops"] = [c["op"] for c in w.rec.calls]
        out["key"] = key

    run_async(main, clock=PinnedClock(T0))
    S.check("processing-is-not-cancelled-from-inside", out["escaped"] is None, info=f"{shape}: CancelledError escaped _Processor.process(); broker calls {out['ops']}")
    if failing is not None and any(failing is n or _uses(n, failing) for n in deps.values()):
        S.cover("provider-failed")
        S.check("actor-not-invoked-when-a-provider-fails", received == [])
        S.check("provider-failure-follows-the-retry-rules", out["ops"] == ["requeue"], info=str(out["ops"]))
        return
    S.cover("resolved")
    S.check("actor-invoked-once", len(received) == 1, info=f"{src.splitlines()[0]}: {out['ops']}")
    if len(received) != 1:
        return
    got = received[0]
    for name, node in deps.items():
        S.check("dependency-parameter-gets-its-providers-value", got[name] == node.value(),
                info=f"{shape}: {name} = {got[name]!r}, expected {node.value()!r}")
    if with_msg:
        S.check("message-dependency-is-this-message", isinstance(got["msg"], MessageDependency) and got["msg"].key.id_ == "m1")
    if payload_arg:
        S.check("payload-argument-next-to-dependencies", got["p"] == 41)
    S.check("successful-run-acked", out["ops"] == ["ack"], info=str(out["ops"]))
    # every provider was called with its own resolved sub-dependencies
    for n in nodes:
        for call in n.calls:
            if call == "override":
                continue
            for pname, sub in (n.subs if n.name not in overridden else []):
                S.check("provider-called-with-its-resolved-sub-dependencies", call[pname] == sub.value(), info=f"{n.name}.{pname}")
            if "verbose" in call:
                S.check("ordinary-parameter-of-a-provider-keeps-its-default", call["verbose"] == 7, info=f"{n.name}: verbose={call['verbose']!r}")
    for n in nodes:
        if n.name in overridden:
            S.cover("override")
            S.check("override-replaces-the-provider-everywhere", all(c == "override" for c in n.calls), info=f"{n.name}: {n.calls}")


def _uses(node, target):
    return any(sub is target or _uses(sub, target) for _, sub in node.subs)


def h18_declaration(S):
    """Unsupported declarations are rejected when declared, not at run time."""
    from repid.converter import BasicConverter, PydanticConverter
    from repid.dependencies import Depends

    which = S.pick("case", 7)
    conv = [BasicConverter, PydanticConverter][S.pick("converter", 2)]

    async def leaf():
        return 1

    dep = Depends(leaf)
    err = None
    try:
        if which == 0:
            async def actor(d: Annotated[int, dep], /):     # dependency in a positional-only parameter
                ...
            conv(actor)
        elif which == 1:
            async def prov(x: Annotated[int, dep], /):      # ... of a provider
                ...
            Depends(prov)
        elif which == 2:
            async def prov2(x: int):                        # provider with a non-dependency argument without default
                ...
            Depends(prov2)
        elif which == 5:
            async def prov5(*xs: Annotated[int, dep]):       # dependency in *args of a provider
                ...
            Depends(prov5)
        elif which == 6:
            async def prov6(**kw: Annotated[int, dep]):      # dependency in **kwargs of a provider
                ...
            Depends(prov6)
        elif which == 3:
            async def prov3(x: int = 3, *, y: Annotated[int, dep]):   # supported: default + keyword-only dependency
                return x + y
            Depends(prov3)
        else:
            async def actor4(a: int, d: Annotated[int, dep], *, e: Annotated[int, dep]):   # supported
                ...
            conv(actor4)
    except ValueError as e:
        err = e
    S.cover("declared")
    S.tag("case", which)
    if which in (0, 1, 2, 5, 6):
        S.check("unsupported-declaration-rejected-at-declaration", err is not None)
    else:
        S.check("supported-declaration-accepted", err is None, info=repr(err))


def h18_special_values(S):
    """A provider's value is passed on as it is (also an exception instance); a provider that answers the
    message itself ends the execution: the actor is not invoked and nothing more is reported."""
    import repid.data._parameters as P
    from repid import MessageDependency
    from repid._processor import _Processor
    from repid.connections.in_memory.utils import Message as MemMessage
    from repid.converter import BasicConverter
    from repid.data._key import RoutingKey
    from repid.dependencies import Depends

    which = S.pick("case", 10)
    nested = S.flag("nested_under_another_provider") if which < 3 or which >= 7 else False
    left = 1
    received = []
    out = {}
    marker = KeyError("a value, not a failure")

    async def returns_exception():
        return marker

    async def answers_itself(m: MessageDependency):
        await m.ack()

    async def plain():
        return 5

    async def tagged(m: MessageDependency):
        return ("tagged", m.key.id_)

    def environment():
        return "production"

    def sandbox():
        return "sandbox"

    override_later = None
    if which == 9:
        # an override made while a message is already in flight (its sub-dependency still resolving) applies to the provider call that follows
        async def slow_sub():
            import asyncio as _a
            await _a.sleep(0.01)
            return "sub"

        async def original(s: Annotated[str, Depends(slow_sub)]):
            return "original:" + s

        dep = Depends(original)
        sync_replacement = S.flag("replacement_is_sync")
        # (the replacement declares the same sub-dependency: what a mid-flight override with another signature should do is not
        # said by the property - on the unchanged tree that one message fails)
        if sync_replacement:
            def replacement(s: Annotated[str, Depends(slow_sub)]):
                return "replacement:" + s
        else:
            async def replacement(s: Annotated[str, Depends(slow_sub)]):
                return "replacement:" + s
        override_later = (dep, replacement)

        async def actor(d: Annotated[str, dep]):
            received.append(d)
    elif which == 7:
        # a provider failing with one exception type or another, sync or async, with a retry left or not
        import json
        excs = [RuntimeError("boom"), ValueError("bad value"), KeyError("k"), TypeError("t"), LookupError("l"),
                json.JSONDecodeError("Expecting value", "", 0), UnicodeDecodeError("utf-8", b"\xff", 0, 1, "invalid start byte")]
        exc = excs[S.pick("provider_exception", len(excs))]
        left = S.pick("retries_left", 2)
        S.tag("provider_exception", type(exc).__name__)
        if S.flag("sync_provider"):
            def failing():
                raise exc
        else:
            async def failing():
                raise exc
        dep = Depends(failing)
        if nested:
            async def outer(x: Annotated[object, dep]):
                return x
            dep = Depends(outer)

        async def actor(d: Annotated[object, dep]):
            received.append(d)
    elif which == 8:
        # a synchronous provider whose value happens to be awaitable (a lazy handle, a coroutine the actor wants to await itself)
        class Handle:
            awaited = 0

            def __await__(self):
                Handle.awaited += 1
                return iter(())

        kind = ["object-with-__await__", "future"][S.pick("awaitable_kind", 2)]
        import asyncio as _aio
        handle = {}

        def lazy():
            handle["v"] = Handle() if kind == "object-with-__await__" else _aio.get_event_loop().create_future()
            if kind == "future":
                handle["v"].set_result("inner")
            return handle["v"]

        dep = Depends(lazy)
        if nested:
            async def outer(x: Annotated[object, dep]):
                return x
            dep = Depends(outer)

        async def actor(d: Annotated[object, dep]):
            received.append(d)
    elif which == 5:
        # a synchronous provider that is a functools.partial (no __name__), declared directly or installed as an override
        import functools

        def scaled(k, base=10):
            return k * base

        as_override = S.flag("installed_as_an_override")
        if as_override:
            dep = Depends(plain)
            dep.override(functools.partial(scaled, 4))
        else:
            dep = Depends(functools.partial(scaled, 4))

        async def actor(d: Annotated[int, dep]):
            received.append(d)
    elif which == 6:
        # a provider declared for the process pool, overridden (as tests do) by a local function: the override runs in a thread
        from harness.actors import cpu_bound_provider
        dep = Depends(cpu_bound_provider, run_in_process=True)
        overridden = S.flag("overridden_by_a_local_lambda")
        if overridden:
            dep.override(lambda: "from-the-override")

        async def actor(d: Annotated[str, dep]):
            received.append(d)
    elif which == 3:
        # the annotated type is itself a dependency class, the metadata names the provider to use
        async def actor(d: Annotated[MessageDependency, Depends(tagged)]):
            received.append(d)
    elif which == 4:
        # two Depends objects over one provider function are two dependencies: overriding one leaves the other alone
        dep_a, dep_b = Depends(environment), Depends(environment)

        async def actor(a: Annotated[str, dep_a], b: Annotated[str, dep_b]):
            received.append((a, b))

        dep_b.override(sandbox)        # e.g. a test overriding one of them after the actors were declared
    else:
        leaf = [returns_exception, answers_itself, plain][which]
        dep = Depends(leaf)
        if nested:
            async def outer(x: Annotated[object, dep]):
                return x
            dep = Depends(outer)

        async def actor(d: Annotated[object, dep]):
            received.append(d)

    async def main(loop):
        w = World()
        await w.open(record=True)
        key = RoutingKey(topic="job", queue="default", id_="m1")
        params = P.Parameters(retries=P.RetriesProperties(max_amount=left, already_tried=0), timestamp=P.datetime.now())
        w.broker.queues["default"].processing.add(MemMessage(key, "", params))
        proc = _Processor(w.conn)
        if override_later is not None:
            import asyncio as _a
            t = _a.ensure_future(proc.process(mk_actor(actor, converter=BasicConverter), key, "", params))
            await _a.sleep(0.005)
            override_later[0].override(override_later[1])
            await t
        else:
            await proc.process(mk_actor(actor, converter=BasicConverter, retry_policy=lambda retry_number=1: real_timedelta(hours=1)), key, "", params)
        out["ops"] = [x["op"] for x in w.rec.calls]
        rq = [x for x in w.rec.calls if x["op"] == "requeue"]
        out["tried"] = rq[0]["args"][2].retries.already_tried if rq else None

    run_async(main, clock=PinnedClock(T0))
    S.cover("special-values")
    S.tag("case", ["returns-exception-instance", "answers-the-message", "plain", "annotated-dependency-class-with-provider", "two-depends-one-provider",
                   "partial-as-sync-provider", "process-pool-provider", "provider-raises", "sync-provider-returns-an-awaitable", "override-while-in-flight"][which])
    if which == 9:
        S.check("override-applies-from-then-on", received == ["replacement:sub"] and out["ops"] == ["ack"],
                info=f"the override was installed while the sub-dependency was still resolving; the actor received {received}")
        return
    if which == 7:
        S.check("actor-not-invoked-when-a-provider-fails", received == [])
        S.check("provider-failure-follows-the-retry-rules", out["ops"] == (["requeue"] if left else ["nack"]) and (not left or out["tried"] == 1),
                info=f"{type(exc).__name__} with {left} retries left: broker calls {out['ops']} (counter {out['tried']})")
        return
    if which == 8:
        S.check("awaitable-value-is-passed-on-as-it-is", len(received) == 1 and received[0] is handle.get("v") and out["ops"] == ["ack"],
                info=f"{kind}: actor received {received!r}, provider returned {handle.get('v')!r}; broker calls {out['ops']}")
        if kind == "object-with-__await__":
            S.check("nobody-awaited-the-value-on-the-actors-behalf", Handle.awaited == 0, info=f"awaited {Handle.awaited} times")
        return
    if which == 5:
        S.check("callable-without-a-name-works-as-a-provider", received == [40] and out["ops"] == ["ack"], info=f"received={received} ops={out['ops']}")
        return
    if which == 6:
        want = "from-the-override" if overridden else "from-the-process-pool"
        S.check("override-of-a-process-pool-provider-takes-effect", received == [want] and out["ops"] == ["ack"], info=f"received={received} ops={out['ops']}")
        return
    if which == 3:
        S.check("provider-named-in-the-annotation-is-used", received == [("tagged", "m1")] and out["ops"] == ["ack"], info=f"received={received} ops={out['ops']}")
        return
    if which == 4:
        S.check("override-applies-to-the-overridden-dependency-only", received == [("production", "sandbox")] and out["ops"] == ["ack"],
                info=f"received={received} ops={out['ops']}")
        return
    if which == 0:
        S.check("exception-instance-is-a-value", received == [marker] or (len(received) == 1 and received[0] is marker), info=f"received={received} ops={out['ops']}")
        S.check("acked", out["ops"] == ["ack"], info=str(out["ops"]))
    elif which == 1:
        S.check("actor-not-invoked-after-the-provider-answered", received == [], info=f"actor received {received}")
        S.check("only-the-providers-answer-is-reported", out["ops"] == ["ack"], info=str(out["ops"]))
    else:
        S.check("plain-value", received == [5] and out["ops"] == ["ack"])


def h18_collision(S):
    """A payload entry named like a dependency parameter never replaces the resolved dependency."""
    import repid.data._parameters as P
    from repid._processor import _Processor
    from repid.connections.in_memory.utils import Message as MemMessage
    from repid.converter import BasicConverter
    from repid.data._key import RoutingKey
    from repid.dependencies import Depends

    c = S.int("provider_value", None, None)
    catch_all = S.flag("actor_has_kwargs")
    received = []
    out = {}

    async def prov():
        return c

    dep = Depends(prov)
    if catch_all:
        async def actor(d: Annotated[int, dep], **rest):
            received.append(d)
    else:
        async def actor(d: Annotated[int, dep]):
            received.append(d)

    async def main(loop):
        w = World()
        await w.open(record=True)
        key = RoutingKey(topic="job", queue="default", id_="m1")
        params = P.Parameters(timestamp=P.datetime.now())
        w.broker.queues["default"].processing.add(MemMessage(key, '{"d": 666}', params))
        proc = _Processor(w.conn)
        await proc.process(mk_actor(actor, converter=BasicConverter), key, '{"d": 666}', params)
        out["ops"] = [x["op"] for x in w.rec.calls]

    run_async(main, clock=PinnedClock(T0))
    S.cover("collision")
    for v in received:
        S.check("payload-never-replaces-a-dependency", v == c, info=f"actor received d={v!r}")
    S.check("one-disposition", len(out["ops"]) == 1, info=str(out["ops"]))


HARNESSES = [
    Harness(name="H18-resolve", scenario=h18, workers=16, budget_s=900,
            bounds={"graph": "leaf / chain of 2 / chain of 3 / fan-out 2 / shared sub-dependency / two dependencies + the message dependency",
                    "providers": "sync or async each; a leaf returns a symbolic integer, an inner node a*sum(subs)+b with symbolic b (any integers)",
                    "overrides": "0..2 overrides of any node with a provider returning a symbolic integer", "faults": "one provider failing or none",
                    "payload": "with or without a payload argument", "converter": "Basic / Pydantic"},
            functions=["dependencies/depends.py:Depends.resolve", "dependencies/depends.py:Depends.override", "_processor.py:_Processor.actor_run"],
            covers=["resolved", "provider-failed", "override"]),
    Harness(name="H18-declaration", scenario=h18_declaration, bounds={"cases": "5 unsupported (positional-only, *args, **kwargs dependencies; non-default plain argument) and 2 supported declarations x 2 converters"},
            functions=["dependencies/depends.py:Depends._update_subdependencies", "converter.py:BasicConverter.__init__"], covers=["declared"]),
    Harness(name="H18-special-values", scenario=h18_special_values,
            bounds={"provider": "returns an exception instance as its value / answers the message through its MessageDependency / plain; direct or nested under another provider",
                    "further cases": "annotated dependency class with a provider; two Depends over one provider; functools.partial provider; process-pool provider overridden; "
                                     "a provider raising one of seven exception types (sync/async, retry left or not); a sync provider returning an awaitable"},
            functions=["_processor.py:_Processor._actor_run", "dependencies/depends.py:Depends.resolve"], covers=["special-values"]),
    Harness(name="H18-collision", scenario=h18_collision, bounds={"payload": "an entry named like the dependency parameter; actor with or without **kwargs"},
            covers=["collision"]),
]
ASSUMPTIONS = ["thread pools run inline (sync providers take zero virtual time)", "values are compared as SMT terms: equality is proved for all provider constants"]
from engine.harness import borrowed  # noqa: E402
HARNESSES.append(borrowed("c08", "H08-bind", "H18-binding-next-to-payload"))   # dependency parameters keep their values next to every payload shape and signature
