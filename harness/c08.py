"""C08 - arguments bind to the actor signature identically under every converter."""
import inspect
import json

from engine.harness import Harness
from engine.vtime import PinnedClock
from harness.common import T0, run_async

KINDS = ["PO", "PK", "VP", "KO", "VK"]
NAMES = ["a", "b", "c"]
# no default / an int default / None as default of an int-annotated parameter / a default declared through pydantic's Field(...)
DEFAULTS = ["none", "int", "None", "field"]
REC = []
RET = [7]          # what the generated actor returns (set per scenario)
OPT = [False]      # int parameters are annotated Optional[int] (an annotation, not a default)
RETURNS = [7, float("inf"), {"ratio": [1.5, float("-inf")]}]


def build_fn(spec):
    """spec: list of (name, kind, default_kind, is_dep) -> (async function recording its bound arguments, source)."""
    from typing import Annotated
    from repid.dependencies import Depends

    async def provider():
        return "DEP"

    parts = []
    seen_slash = False
    star_done = False
    n_po = sum(1 for s in spec if s[1] == "PO")
    for idx, (name, kind, dk, dep) in enumerate(spec):
        ann = "Annotated[str, Depends(provider)]" if dep else ("Optional[int]" if OPT[0] else "int")
        dflt = {"none": "", "int": f" = {100 + idx}", "None": " = None", "field": f" = Field(default={100 + idx}, ge=0)"}[dk]
        if kind == "PO":
            parts.append(f"{name}: {ann}{dflt}")
            if sum(1 for s in spec[: idx + 1] if s[1] == "PO") == n_po:
                parts.append("/")
        elif kind == "PK":
            parts.append(f"{name}: {ann}{dflt}")
        elif kind == "VP":
            parts.append(f"*{name}")
            star_done = True
        elif kind == "KO":
            if not star_done:
                parts.append("*")
                star_done = True
            parts.append(f"{name}: {ann}{dflt}")
        elif kind == "VK":
            parts.append(f"**{name}")
    names = [s[0] for s in spec]
    src = f"async def actor({', '.join(parts)}):\n    REC.append(dict({', '.join(f'{n}={n}' for n in names)}))\n    return RET[0]\n"
    import pydantic
    ns = {"Annotated": Annotated, "Depends": Depends, "provider": provider, "REC": REC, "Field": pydantic.Field, "RET": RET, "Optional": __import__("typing").Optional}
    exec(src, ns)  # noqa: S102
    return ns["actor"], src


def valid(spec):
    order = {"PO": 0, "PK": 1, "VP": 2, "KO": 3, "VK": 4}
    ks = [order[s[1]] for s in spec]
    if ks != sorted(ks):
        return False
    if sum(1 for s in spec if s[1] == "VP") > 1 or sum(1 for s in spec if s[1] == "VK") > 1:
        return False
    seen_default = False
    for name, kind, dk, dep in spec:
        if kind in ("VP", "VK"):
            if dk != "none" or dep:
                return False
            continue
        if dep and kind == "PO":
            return False            # rejected at declaration (C18)
        if dep and dk != "none":
            return False
        if kind in ("PO", "PK"):
            if dk != "none" or dep:
                seen_default = seen_default or dk != "none"
            if dk == "none" and not dep and seen_default:
                return False        # non-default after default
            if dep and seen_default:
                return False
    return True


def h08_bind(S, n_max=2):
    from repid import Connection, InMemoryMessageBroker
    from repid._processor import _Processor
    from repid.converter import BasicConverter, DefaultConverter, PydanticConverter
    from repid.data._key import RoutingKey
    import repid.data._parameters as P
    from harness.common import mk_actor

    n = S.pick("n_params", n_max) + 1
    spec = []
    for i in range(n):
        kind = KINDS[S.pick(f"kind{i}", 5)]
        dk = DEFAULTS[S.pick(f"default{i}", len(DEFAULTS))] if kind not in ("VP", "VK") else "none"
        dep = S.flag(f"dep{i}") if kind in ("PK", "KO") and dk == "none" else False
        spec.append((NAMES[i], kind, dk, dep))
    if not valid(spec):
        S.cover("invalid-signature-skipped")
        return
    ret = RETURNS[S.pick("return_value", len(RETURNS))] if n == 1 else 7
    OPT[0] = S.flag("int_parameters_annotated_optional") if n <= 2 else False
    RET[0] = ret
    empty = S.flag("empty_payload")
    present = {}
    payload = {}
    if not empty:
        for i, (name, kind, dk, dep) in enumerate(spec):
            if kind in ("VP", "VK") or dep:
                continue
            present[name] = S.flag(f"present{i}")
            if present[name]:
                payload[name] = 10 + i
        if S.flag("extra_key"):
            payload["zz"] = 99
    text = "" if empty else json.dumps(payload)
    fn, src = build_fn(spec)
    S.note("signature", src.split("\n")[0])
    S.note("payload", text)
    has_vp = any(s[1] == "VP" for s in spec)
    has_vk = any(s[1] == "VK" for s in spec)
    has_dep = any(s[3] for s in spec)
    S.tag("payload_kind", "empty" if empty else "dict")
    results = {}

    convs = [("basic", BasicConverter), ("default", DefaultConverter)]
    if not has_vp and not has_vk:
        convs.append(("pydantic", PydanticConverter))
    if any(s[2] == "field" for s in spec):
        # Field(...) defaults are a pydantic notion: BasicConverter leaves the FieldInfo object in place by design
        convs = [c for c in convs if c[0] != "basic"]

    async def main(loop):
        conn = Connection(InMemoryMessageBroker())
        proc = _Processor(conn)
        key = RoutingKey(topic="actor", queue="default", id_="m1")
        params = P.Parameters()
        for cname, conv in convs:
            REC.clear()
            try:
                actor = mk_actor(fn, name="actor", converter=conv)
            except ValueError as e:
                results[cname] = ("declaration-error", str(e))
                continue
            res = await proc.actor_run(actor, key, params, text, conn)
            results[cname] = ("ran" if REC else "not-run", res.success, list(REC), res.data)

    run_async(main, clock=PinnedClock(T0))

    # oracle ----------------------------------------------------------------------------
    required_missing = [name for (name, kind, dk, dep) in spec
                        if kind not in ("VP", "VK") and not dep and dk == "none" and name not in payload]
    extras = {k: v for k, v in payload.items() if k not in [s[0] for s in spec if s[1] not in ("VP", "VK")]}
    expect = {}
    for idx, (name, kind, dk, dep) in enumerate(spec):
        if kind == "VP":
            expect[name] = None       # checked separately
        elif kind == "VK":
            expect[name] = extras
        elif dep:
            expect[name] = "DEP"
        elif name in payload:
            expect[name] = payload[name]
        else:
            expect[name] = {"int": 100 + idx, "None": None, "none": inspect.Parameter.empty, "field": 100 + idx}[dk]
    S.cover("bound")
    for cname, r in results.items():
        S.tag("converter", cname)
        if r[0] == "declaration-error":
            # DefaultConverter is the pydantic one here: *args/**kwargs are declared unsupported
            S.check("declaration-rejected-only-for-catch-all-under-pydantic", cname == "default" and (has_vp or has_vk), info=str(r))
            continue
        state, success, rec, data = r
        if required_missing:
            S.cover("required-missing")
            S.check("missing-required-argument-fails-the-execution", state == "not-run" and not success,
                    info=f"{cname}: {src.splitlines()[0]} payload={text!r}: actor received {rec}")
            continue
        if state == "ran":
            got = rec[0]
            for name, kind, dk, dep in spec:
                if kind == "VP":
                    vp = got[name]
                    S.check("star-args-only-gets-unmatched-entries", all(v in extras.values() for v in vp),
                            info=f"{cname}: {src.splitlines()[0]} payload={text!r}: *{name}={vp}")
                else:
                    S.check("parameter-gets-its-entry-or-default", got[name] == expect[name],
                            info=f"{cname}: {src.splitlines()[0]} payload={text!r}: {name}={got[name]!r}, expected {expect[name]!r}")
            S.check("return-value-round-trips", success and json.loads(data) == ret, info=f"{cname}: returned {ret!r}, encoded as {data!r} (success={success})")
        # when must it run?  every required argument present and nothing that cannot be placed
        # BasicConverter hands unmatched entries to *args positionally, which Python cannot place behind
        # parameters that are passed by keyword: such a call fails (it never binds a wrong value)
        unplaceable = bool(extras) and has_vp and not has_vk and any(s[1] == "PK" for s in spec)
        if not unplaceable:
            S.check("actor-runs-when-arguments-suffice", state == "ran" and success,
                    info=f"{cname}: {src.splitlines()[0]} payload={text!r}: {state} success={success}")
        if empty:
            S.cover("empty-payload")
    if "basic" in results and "pydantic" in results and results["basic"][0] == "ran" and results["pydantic"][0] == "ran":
        S.cover("both-converters")
        S.check("basic-and-pydantic-agree", results["basic"][2] == results["pydantic"][2],
                info=f"{src.splitlines()[0]} payload={text!r}: basic {results['basic'][2]} pydantic {results['pydantic'][2]}")


def h08_noargs(S, backend="redis"):
    """A job enqueued without arguments travels through a broker's wire format and runs an all-defaults actor."""
    import asyncio
    from repid import Job, Router, Worker
    from repid.converter import BasicConverter, DefaultConverter, PydanticConverter
    from harness.common import World, place_names

    cname, conv = [("basic", BasicConverter), ("pydantic", PydanticConverter), ("default", DefaultConverter)][S.pick("converter", 3)]
    args_kind = ["none", "empty-dict"][S.pick("args", 2)]
    # the connection may have an argument bucket broker, and the actor a catch-all for whatever else arrives
    with_bucket_broker = backend == "mem" and S.flag("connection_has_an_args_bucket_broker")
    catch_all = S.flag("actor_has_catch_alls") if cname == "basic" else False
    S.tag("converter", cname)
    S.tag("backend", backend)
    got = []
    extras = []
    out = {}

    async def main(loop):
        w = World(backend=backend, args_bucket=with_bucket_broker)
        await w.open(record=False)
        r = Router()

        if catch_all:
            @r.actor(converter=conv)
            async def actor(a: int = 5, *rest, b: int = 6, **more):
                got.append((a, b))
                extras.append((rest, more))
        else:
            @r.actor(converter=conv)
            async def actor(a: int = 5, *, b: int = 6):
                got.append((a, b))

        await Job("actor", args=None if args_kind == "none" else {}, id_="m1", _connection=w.conn).enqueue()
        worker = Worker(routers=[r], handle_signals=[], _connection=w.conn, graceful_shutdown_time=1.0, messages_limit=1)
        try:
            await asyncio.wait_for(worker.run(), timeout=5)
            out["returned"] = True
        except asyncio.TimeoutError:
            out["returned"] = False
        await asyncio.sleep(0.2)
        out["places"] = place_names(w.places(), "m1")

    run_async(main)
    S.cover("no-args-job")
    S.check("job-without-arguments-runs-the-all-defaults-actor", got == [(5, 6)], info=f"{cname} on {backend}, args={args_kind}: actor calls {got}; message is in {out['places']}")
    S.check("and-is-acknowledged", out["places"] == [], info=str(out["places"]))
    if catch_all:
        S.check("nothing-made-up-reaches-the-catch-alls", extras == [((), {})], info=f"*args/**kwargs of the actor: {extras}")


def h08_bucket_reuse(S):
    """Two jobs in one worker run whose arguments travel through a bucket with the same explicit id, one after the other."""
    import asyncio
    from repid import Job, Router, Worker
    from repid.converter import BasicConverter, DefaultConverter, PydanticConverter
    from harness.common import World

    cname, conv = [("basic", BasicConverter), ("pydantic", PydanticConverter), ("default", DefaultConverter)][S.pick("converter", 3)]
    second_omits = S.flag("second_job_omits_the_optional_argument")
    args_id = ["shared-args", 'a"b\\c', "ключ-аргументов"][S.pick("args_id", 3)]      # the id is free text: quotes, backslashes, non-ASCII
    S.tag("converter", cname)
    got = []

    async def main(loop):
        w = World(args_bucket=True)
        await w.open(record=False)
        r = Router()

        @r.actor(converter=conv)
        async def actor(a: int, b: int = 50):
            got.append((a, b))

        worker = Worker(routers=[r], handle_signals=[], _connection=w.conn, graceful_shutdown_time=1.0, messages_limit=2)
        task = asyncio.create_task(worker.run())
        await Job("actor", args={"a": 1, "b": 10}, id_="j1", args_id=args_id, _connection=w.conn).enqueue()
        await asyncio.sleep(0.05)
        await Job("actor", args={"a": 2} if second_omits else {"a": 2, "b": 20}, id_="j2", args_id=args_id, _connection=w.conn).enqueue()
        await asyncio.wait_for(task, timeout=5)

    run_async(main)
    S.cover("bucket-id-reused")
    S.check("each-job-gets-its-own-entries-and-defaults", got == [(1, 10), (2, 50 if second_omits else 20)], info=f"{cname}: actor calls {got}")


def h08_same_job_id(S):
    """Two pending jobs that carry the same id (ids are scoped per topic; nothing de-duplicates them here): each actor call
    receives its own job's entries, through an argument bucket or inline."""
    import asyncio
    from repid import Job, Router, Worker
    from repid.converter import BasicConverter, DefaultConverter, PydanticConverter
    from harness.common import World

    cname, conv = [("basic", BasicConverter), ("pydantic", PydanticConverter), ("default", DefaultConverter)][S.pick("converter", 3)]
    bucket = S.flag("args_through_bucket")
    same_topic = S.flag("same_topic")
    second_omits = S.flag("second_job_omits_the_optional_argument")
    S.tag("converter", cname)
    got = []

    async def main(loop):
        w = World(args_bucket=bucket)
        await w.open(record=False)
        r = Router()

        @r.actor(converter=conv)
        async def first(a: int, b: int = 50):
            got.append(("first", a, b))

        @r.actor(converter=conv)
        async def second(a: int, b: int = 50):
            got.append(("second", a, b))

        await Job("first", args={"a": 1, "b": 10}, id_="nightly", _connection=w.conn).enqueue()
        await Job("first" if same_topic else "second", args={"a": 2} if second_omits else {"a": 2, "b": 20}, id_="nightly", _connection=w.conn).enqueue()
        worker = Worker(routers=[r], handle_signals=[], _connection=w.conn, graceful_shutdown_time=1.0, messages_limit=2, tasks_limit=1)
        await asyncio.wait_for(worker.run(), timeout=5)

    run_async(main)
    S.cover("same-job-id")
    want = [("first", 1, 10), ("first" if same_topic else "second", 2, 50 if second_omits else 20)]
    S.check("each-job-gets-its-own-entries-and-defaults", got == want, info=f"{cname}: actor calls {got}, expected {want}")


def h08_returns_model(S):
    """An actor annotated to return a pydantic model: the stored result decodes to the value the actor returned,
    also where a field is None although its default is not."""
    import asyncio
    import json
    import typing
    import pydantic
    from repid import Job, Router, Worker
    from repid.converter import BasicConverter, DefaultConverter, PydanticConverter
    from harness.common import World

    import decimal
    import enum
    import uuid

    class Colour(enum.Enum):
        RED = "red"

    class Report(pydantic.BaseModel):
        done: bool
        retry_after: typing.Optional[int] = 30
        note: typing.Optional[str] = None

    class Rich(pydantic.BaseModel):
        uid: uuid.UUID
        amount: decimal.Decimal
        colour: Colour
        members: typing.Set[int]

    cname, conv = [("basic", BasicConverter), ("pydantic", PydanticConverter), ("default", DefaultConverter)][S.pick("converter", 3)]
    as_dict = S.flag("actor_returns_a_dict")
    retry_after = [None, 5][S.pick("retry_after", 2)]
    rich = S.flag("model_with_uuid_decimal_enum_set_fields")
    annotated = S.flag("return_annotation_present") if rich else True
    S.tag("converter", cname)
    out = {}
    value = Report(done=True, retry_after=retry_after)
    if rich:
        as_dict = False
        Report = Rich
        value = Rich(uid=uuid.UUID(int=7), amount=decimal.Decimal("1.50"), colour=Colour.RED, members={3})

    async def main(loop):
        w = World(results=True)
        await w.open(record=False)
        r = Router()

        if annotated:
            async def actor() -> Report:
                return value.model_dump() if as_dict else value
        else:
            async def actor():
                return {"report": value}

        r.actor(name="actor", converter=conv)(actor)
        await Job("actor", id_="j1", result_id="r1", _connection=w.conn).enqueue()
        worker = Worker(routers=[r], handle_signals=[], _connection=w.conn, graceful_shutdown_time=1.0, messages_limit=1)
        await asyncio.wait_for(worker.run(), timeout=5)
        out["bucket"] = await w.rb.get_bucket("r1")

    run_async(main)
    S.cover("model-returned")
    b = out["bucket"]
    S.check("result-stored", b is not None and b.success, info=repr(b))
    if b is not None and b.success and not annotated:
        S.check("encoded-return-value-is-the-models-json", json.loads(b.data) == {"report": json.loads(value.model_dump_json())}, info=f"{cname}: stored {b.data!r}")
        return
    if b is not None and b.success:
        S.check("encoded-return-value-decodes-to-the-returned-value", Report.model_validate_json(b.data) == value,
                info=f"{cname}: returned {value!r}, stored {b.data!r}")
        S.check("encoded-return-value-is-the-models-json", json.loads(b.data) == json.loads(value.model_dump_json()),
                info=f"{cname}: stored {b.data!r}")


HARNESSES = [
    Harness(name="H08-bind", scenario=h08_bind, workers=16, budget_s=900,
            params={"quick": {"n_max": 3}, "thorough": {"n_max": 3}},
            bounds={"signature": "1..3 parameters, each positional-only / positional-or-keyword / *args / keyword-only / **kwargs, "
                                 "default none / int / None, dependency or not; Python's own validity rules as the precondition",
                    "payload": "empty string, or a dict with each named parameter present/absent and one extra key present/absent",
                    "converters": "BasicConverter, PydanticConverter, DefaultConverter"},
            functions=["converter.py:BasicConverter.convert_inputs", "converter.py:PydanticConverter.convert_inputs", "_processor.py:_Processor.actor_run"],
            covers=["bound", "required-missing", "empty-payload", "both-converters"]),
]
HARNESSES.append(Harness(name="H08-bucket-reuse", scenario=h08_bucket_reuse,
                         bounds={"jobs": "two, executed one after the other by one running worker, arguments through an argument bucket with the same explicit args_id",
                                 "second job": "overrides or omits the optional argument", "converters": "Basic, Pydantic, Default"},
                         functions=["_processor.py:_Processor.get_payload", "job.py:Job.enqueue"], covers=["bucket-id-reused"]))
for _be in ("mem", "redis", "rabbit"):
    HARNESSES.append(Harness(name=f"H08-noargs-{_be}", scenario=h08_noargs, params={"quick": {"backend": _be}, "thorough": {"backend": _be}},
                             bounds={"job": "args=None or args={} through Job.enqueue(), the broker's wire format, a Worker", "converters": "Basic, Pydantic, Default"},
                             functions=["job.py:Job.enqueue", "worker.py:Worker.run"], covers=["no-args-job"],
                             stubs=[] if _be == "mem" else [f"fake {_be} server"]))
HARNESSES.append(Harness(name="H08-same-job-id", scenario=h08_same_job_id,
                         bounds={"jobs": "two pending jobs with the same id_ (same or different topic), no explicit args_id, arguments inline or through a bucket",
                                 "second job": "overrides or omits the optional argument", "converters": "Basic, Pydantic, Default"},
                         functions=["job.py:Job.__init__", "job.py:Job.enqueue", "_processor.py:_Processor.get_payload"], covers=["same-job-id"]))
HARNESSES.append(Harness(name="H08-returns-model", scenario=h08_returns_model,
                         bounds={"return annotation": "a pydantic model with an Optional field whose default is not None", "returned": "the model or a dict of it; the field None or set",
                                 "converters": "Basic, Pydantic, Default"},
                         functions=["converter.py:PydanticConverter.convert_outputs", "converter.py:BasicConverter.convert_outputs"], covers=["model-returned"]))
ASSUMPTIONS = ["finite combinatorial space enumerated by the solver (selectors); payload values are small ints; no arithmetic insight is claimed"]

from engine.harness import borrowed  # noqa: E402
HARNESSES.append(borrowed("c18", "H18-collision", "H08-dependency-collision"))   # an entry with no matching payload parameter goes only to the catch-all, never to a dependency parameter
