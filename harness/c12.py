"""C12 - expired messages are never executed; live ones are never dropped."""
from __future__ import annotations

from engine import vtime
from engine.harness import Harness
from engine.symx import all_of, any_of, implies, neg
from engine.vtime import PinnedClock, real_timedelta
from harness.common import SEC, Y1970, Y2000, Y2050, Y2100, Recorder, mem_places, mk_actor, place_names, run_async, try_consume, us_of
from harness.steps import HUNDRED_Y, process_step


def h12_consume_mem(S):
    """In-memory consumer: a waiting / due-delayed message with symbolic timestamp, ttl and delivery instant."""
    import repid.data._parameters as P
    from repid import Connection, InMemoryMessageBroker
    from repid.connections.in_memory.utils import Message
    from repid.data._key import RoutingKey
    from repid.message import MessageCategory

    ts = S.int("timestamp", Y2000, Y2050)
    has_ttl = S.flag("has_ttl")
    ttl = S.int("ttl", 0, HUNDRED_Y) if has_ttl else None
    now = S.int("now", Y2000, Y2100)
    origin = S.pick("origin", 3)          # 0 waiting, 1 delayed and due, 2 arrives while the consumer is already polling
    due = S.int("due", Y2000, Y2100) if origin == 1 else None
    S.tag("origin", ["waiting", "delayed", "arrives-while-polling"][origin])
    arrives_after = [0.0005, 0.3, 1.2][S.pick("arrives_after", 3)] if origin == 2 else None
    # ... and the wall clock has moved on since the consumer started to wait
    advance = S.int("clock_advanced_while_waiting", 0, 2 * SEC) if origin == 2 else 0
    # ... during which the consumer may have been paused (and resumed only after the clock had moved on)
    paused_meanwhile = origin == 2 and S.flag("consumer_paused_while_waiting")
    params = P.Parameters(timestamp=S.datetime_us(ts), ttl=S.timedelta_us(ttl) if has_ttl else None,
                          delay=P.DelayProperties(next_execution_time=S.datetime_us(due) if origin == 1 else None))
    key = RoutingKey(topic="job", queue="default", id_="m1")
    clock = PinnedClock(now)
    out = {}

    async def main(loop):
        broker = InMemoryMessageBroker()
        conn = Connection(broker)
        await conn.connect()
        await broker.queue_declare("default")
        q = broker.queues["default"]
        if origin == 0:
            q.simple.put_nowait(Message(key, "p", params))
        elif origin == 1:
            q.delayed.setdefault(S.datetime_us(due), []).append(Message(key, "p", params))
        cons = broker.get_consumer("default", ["job"])
        await cons.start()
        if origin == 2:
            # e.g. handed back by another consumer, or enqueued late by a producer with an old timestamp
            import asyncio
            waiting = asyncio.ensure_future(try_consume(cons, timeout=2.5))
            waiting.add_done_callback(lambda f: out.setdefault("decided_at", clock.us))      # the clock reading at the hand-over
            await asyncio.sleep(arrives_after)
            if paused_meanwhile:
                await cons.pause()
                await broker.enqueue(key, "p", params)
                await asyncio.sleep(0.01)
                clock.set(now + advance)
                await cons.unpause()
            else:
                clock.set(now + advance)
                await broker.enqueue(key, "p", params)
            out["got"] = await waiting
        else:
            out["got"] = await try_consume(cons)
        out["places"] = mem_places(broker)
        dead = broker.get_consumer("default", None, None, MessageCategory.DEAD)
        await dead.start()
        out["dead_got"] = await try_consume(dead)

    run_async(main, clock=clock)
    got = out["got"] is not None
    names = place_names(out["places"], "m1")
    now = out.get("decided_at", now + advance)                  # the instant of the delivery decision
    if origin == 1 and not (now > due):
        S.cover("not-due")
        S.check("not-due-stays-delayed", (not got) and names == ["delayed"])
        return
    if got:
        S.cover("handed-over")
        S.check("never-handed-over-after-expiry", (not has_ttl) or neg(now > ts + ttl))
        S.check("held-once", names == ["processing"])
    else:
        S.cover("withheld")
        S.check("withheld-only-when-expired", has_ttl and (now > ts + ttl))
        S.check("expired-goes-to-dead-letter", names == ["dead"], info=str(names))
        S.check("expired-stays-retrievable", out["dead_got"] is not None and out["dead_got"][0].id_ == "m1")


def h12_redis_maintenance(S):
    """Redis: a message delivered within its time-to-live is being executed when the ttl runs out; another process connects (broker
    maintenance runs): the running message is not dead-lettered for its ttl - it is its holder's until that one settles it."""
    import repid.data._parameters as P
    from fakes import redis as fr
    from repid.data._key import RoutingKey

    ts = S.int("timestamp", Y2000, Y2050)
    ttl = S.int("ttl", SEC, 3600 * SEC)
    taken_after = S.int("delivered_after", 0, 3600 * SEC)
    maint_after = S.int("maintenance_after_the_delivery", 0, 500 * SEC)          # well inside the execution timeout (10 min)
    S.assume(taken_after <= ttl)                                                  # delivered within its ttl
    clock = PinnedClock(ts)
    out = {}

    async def main(loop):
        srv = fr.FakeServer(clock=lambda: clock.time())
        holder, other = fr.mk_broker(srv, "holder"), fr.mk_broker(srv, "other")
        key = RoutingKey(topic="job", queue="default", id_="m1")
        await holder.enqueue(key, "p", P.Parameters(timestamp=S.datetime_us(ts), ttl=S.timedelta_us(ttl)))
        clock.set(ts + taken_after)
        cons = holder.get_consumer("default", ["job"])
        cons.POLLING_WAIT = 0
        out["got"] = await cons.consume_or_none()
        clock.set(ts + taken_after + maint_after)
        await other.maintenance()
        out["places"] = {i: sorted(p[0] for p in v) for i, v in fr.redis_places(srv).items()}
        if out["got"] is not None:
            await holder.ack(key)
        out["after_ack"] = {i: sorted(p[0] for p in v) for i, v in fr.redis_places(srv).items()}

    run_async(main, clock=clock)
    S.check("delivered-within-its-ttl", out["got"] is not None)
    if out["got"] is None:
        return
    S.cover("maintenance-while-held")
    S.check("running-message-is-not-dead-lettered-for-its-ttl", out["places"].get("m1") == ["processing"],
            info=f"after another process's maintenance the held message is in {out['places'].get('m1')}")
    S.check("acked-message-is-gone", out["after_ack"].get("m1", []) == [], info=str(out["after_ack"]))


def h12_step(S):
    """TTL base after a retry (unchanged) and after a reschedule (restarted)."""
    o = process_step(S, policy_kind=1, ttl=True)
    if o.has_ttl and o.calls and o.calls[0]["op"] == "nack":
        # the run itself was within the time-to-live (it was delivered): dead-lettering now can only mean "failed, no retry left, not recurring"
        S.cover("dead-lettered-by-the-report")
        S.check("dead-lettered-only-for-an-exhausted-one-off-failure", all_of(o.fail, neg(o.k < o.N)) if not o.recurring else False,
                info="the report dead-lettered a message that was to be retried or rescheduled")
    if not o.has_ttl or not o.calls or o.calls[0]["op"] != "requeue":
        S.cover("no-ttl-or-terminal")
        if o.delivered is None and o.calls and o.calls[0]["op"] == "requeue":
            newp = o.calls[0]["args"][2]
            T = us_of(newp.delay.next_execution_time)
            S.check("no-ttl-never-dropped", o.now + o.delta <= T)
            S.check("no-ttl-not-dead", place_names(o.places_after, "m1") == ["delayed"])
        return
    newp = o.calls[0]["args"][2]
    retried = bool(newp.retries.already_tried != 0) if not isinstance(newp.retries.already_tried, int) else newp.retries.already_tried != 0
    T = us_of(newp.delay.next_execution_time)
    listen = o.now + o.delta
    base = o.ts if retried else o.now        # latest scheduling: a reschedule restarts the clock
    S.tag("after", "retry" if retried else "reschedule")
    S.cover("after-retry" if retried else "after-reschedule")
    expired = listen > base + o.ttl
    due = listen > T
    names = place_names(o.places_after, "m1")
    if o.delivered is not None:
        S.cover("handed-over")
        S.check("never-handed-over-after-expiry", neg(expired))
        S.check("not-before-due", listen >= T)
    else:
        S.cover("withheld")
        S.check("live-due-message-not-withheld", any_of(neg(due), expired))
        if names == ["dead"]:
            S.cover("dead-lettered")
            S.check("dead-only-when-expired", expired)
        else:
            S.check("otherwise-still-delayed", names == ["delayed"], info=str(names))
            S.check("due-and-expired-is-dead-lettered", neg(all_of(due, expired)))


def h12_consume_broker(S, backend="redis"):
    """Redis / RabbitMQ consumers: symbolic timestamp, ttl and delivery instant through the real wire encoding."""
    import repid.data._parameters as P
    from repid.data._key import RoutingKey
    from repid.message import MessageCategory

    ts = S.int("timestamp", Y2000, Y2050)
    has_ttl = S.flag("has_ttl")
    ttl = S.int("ttl", 0, HUNDRED_Y) if has_ttl else None
    now = S.int("now", Y2000, Y2100)
    S.assume(now >= ts)
    clock = PinnedClock(ts)
    out = {}
    S.tag("backend", backend)
    prio = [0, 5, 9][S.pick("priority", 3)]
    S.tag("priority", prio)
    # Redis only: the message may sit in the delayed set with a due time (whole-second scores on the server)
    delayed = backend == "redis" and S.flag("delayed")
    due = S.int("due", Y2000, Y2100) if delayed else None
    if delayed:
        S.assume(due >= ts)
        S.tag("origin", "delayed")
    # ... and be one run of a recurring job (a missed, expired run ends as a dead letter like any other message)
    recurring = delayed and S.flag("recurring")

    # RabbitMQ only: a live message may be in front of it, so that it waits in the consumer's local buffer first
    ahead = backend == "rabbit" and S.flag("a_live_message_ahead_in_the_buffer")

    async def main(loop):
        key = RoutingKey(topic="job", queue="default", id_="m1", priority=prio)
        params = P.Parameters(timestamp=S.datetime_us(ts), ttl=S.timedelta_us(ttl) if has_ttl else None,
                              delay=P.DelayProperties(next_execution_time=S.datetime_us(due), defer_by=real_timedelta(hours=1) if recurring else None)
                              if delayed else P.DelayProperties())
        if backend == "redis":
            from fakes import redis as fr
            srv = fr.FakeServer(clock=lambda: clock.time())
            br = fr.mk_broker(srv)
            await br.enqueue(key, "p", params)
            clock.set(now)
            cons = br.get_consumer("default", ["job"])
            cons.POLLING_WAIT = 0
            out["got"] = await cons.consume_or_none()
            out["places"] = {i: sorted(p[0] for p in v) for i, v in fr.redis_places(srv).items()}
            dead = br.get_consumer("default", ["job"], None, MessageCategory.DEAD)
            dead.POLLING_WAIT = 0
            out["dead_got"] = await dead.consume_or_none()
            if out["dead_got"] is not None:
                # whoever inspects the dead letters and hands one back leaves it there for the next reader
                await br.reject(out["dead_got"][0])
                again = await dead.consume_or_none()
                out["dead_again"] = None if again is None else again[0].id_
        else:
            from fakes import amqp as fa
            br, ch, srv = fa.mk_broker()
            await br.queue_declare("default")
            if ahead:
                await br.enqueue(RoutingKey(topic="job", queue="default", id_="m0", priority=prio), "p", P.Parameters(timestamp=S.datetime_us(ts)))
            await br.enqueue(key, "p", params)
            clock.set(now)
            cons = br.get_consumer("default", ["job"])
            await cons.start()
            if ahead:
                # both messages are in the consumer's local buffer by the time the first one is asked for
                import asyncio
                await asyncio.sleep(0.01)
                first = await try_consume(cons, timeout=1)
                out["first"] = None if first is None else first[0].id_
            out["got"] = await try_consume(cons, timeout=1)
            snap = srv.snapshot()
            out["places"] = {"m1": sorted([{"default": "waiting", "default:dead": "dead", "default:delayed": "delayed"}[q]
                                           for q, ids in snap.items() if q != "__unacked__" and "m1" in ids] +
                                          (["processing"] if out["got"] is not None else []))}
            out["log"] = list(ch.log)
            out["dropped"] = list(srv.dropped)
            await cons.finish()
            dead = br.get_consumer("default", ["job"], None, MessageCategory.DEAD)
            await dead.start()
            out["dead_got"] = await try_consume(dead, timeout=1)
            out["dropped_after_dead_read"] = [d[0] for d in srv.dropped]

    run_async(main, clock=clock)
    names = out["places"].get("m1", [])
    if ahead:
        S.check("live-message-ahead-is-delivered-first", out.get("first") == "m0", info=str(out.get("first")))
    if delayed and out["got"] is None and names == ["delayed"]:
        # withheld because it is not due yet on the server's whole-second clock - not because of its ttl
        S.cover("not-due")
        S.check("still-delayed-only-when-not-due", now < due + SEC)
        return
    if out["got"] is not None:
        S.cover("handed-over")
        S.check("never-handed-over-after-expiry", (not has_ttl) or neg(now > ts + ttl))
        S.check("held-once", names == ["processing"], info=str(names))
    else:
        S.cover("withheld")
        S.check("withheld-only-when-expired", has_ttl and (now > ts + ttl))
        S.check("expired-goes-to-dead-letter", names == ["dead"], info=str(names))
        S.check("expired-stays-retrievable", out["dead_got"] is not None and out["dead_got"][0].id_ == "m1",
                info=f"dead-category consumer got {out['dead_got']}; dropped: {out.get('dropped_after_dead_read')}")
        if "dead_again" in out:
            S.check("expired-stays-retrievable-after-an-inspection", out["dead_again"] == "m1",
                    info=f"read through DEAD, handed back, read again: {out['dead_again']}")


def h12_job(S):
    """Job(ttl, deferred_until, deferred_by).enqueue(): the ttl counts from the job's creation, whatever its deferral."""
    from repid import Job
    from repid.message import MessageCategory
    from harness.common import World

    e = S.int("created_at_us", Y2000, Y2050)
    ttl = S.int("ttl", SEC, HUNDRED_Y)
    has_until = S.flag("has_deferred_until")
    T = S.int("deferred_until_us", Y2000, Y2100) if has_until else None
    has_by = S.flag("has_deferred_by") if has_until else False
    p = S.int("deferred_by_us", SEC, 40 * 86400 * SEC) if has_by else None
    now = S.int("consume_at_us", Y2000, Y2100)
    if has_until:
        S.assume(T > e)
    S.assume(now >= e)
    clock = PinnedClock(e)
    out = {}

    async def main(loop):
        w = World()
        await w.open(record=False)
        await Job("job", id_="m1", ttl=S.timedelta_us(ttl), deferred_until=S.datetime_us(T) if has_until else None,
                  deferred_by=S.timedelta_us(p) if has_by else None, _connection=w.conn).enqueue()
        clock.set(now)
        cons = w.broker.get_consumer("default", ["job"])
        await cons.start()
        out["got"] = await try_consume(cons)
        out["places"] = mem_places(w.broker)
        dead = w.broker.get_consumer("default", None, None, MessageCategory.DEAD)
        await dead.start()
        out["dead_got"] = await try_consume(dead)

    run_async(main, clock=clock)
    names = place_names(out["places"], "m1")
    expired = now > e + ttl
    if out["got"] is not None:
        S.cover("handed-over")
        S.check("never-handed-over-after-expiry", neg(expired), info="ttl counted from something later than the job's creation")
    elif names == ["delayed"]:
        S.cover("not-due")
        S.check("still-delayed-only-when-not-due", has_until and now <= T)
    else:
        S.cover("withheld")
        S.check("withheld-only-when-expired", expired)
        S.check("expired-goes-to-dead-letter", names == ["dead"], info=str(names))
        S.check("expired-stays-retrievable", out["dead_got"] is not None and out["dead_got"][0].id_ == "m1")


def h12_aware(S, backend="rabbit"):
    """Producers in other time zones: a timestamp carrying a UTC offset expires at timestamp + ttl as an instant (concrete values)."""
    import datetime as dt
    import repid.data._parameters as P
    from repid.data._key import RoutingKey
    from repid.message import MessageCategory
    from harness.common import T0

    offset_h = [3, -3, 0][S.pick("producer_utc_offset_hours", 3)]
    age_s = [1800, 5400][S.pick("age_at_delivery", 2)]          # half an hour or an hour and a half old; the ttl is one hour
    S.tag("backend", backend)
    tz = dt.timezone(dt.timedelta(hours=offset_h))
    t0 = dt.datetime(1970, 1, 1) + dt.timedelta(microseconds=T0)
    stamp = t0.replace(tzinfo=dt.timezone.utc).astimezone(tz)       # the same instant, written with the producer's offset
    clock = PinnedClock(T0)
    out = {}

    async def main(loop):
        key = RoutingKey(topic="job", queue="default", id_="m1")
        params = P.Parameters(timestamp=stamp, ttl=real_timedelta(hours=1))
        if backend == "redis":
            from fakes import redis as fr
            br = fr.mk_broker(fr.FakeServer(clock=lambda: clock.time()))
            await br.enqueue(key, "p", params)
            clock.set(T0 + age_s * SEC)
            cons = br.get_consumer("default", ["job"])
            cons.POLLING_WAIT = 0
            out["got"] = await cons.consume_or_none()
        else:
            from fakes import amqp as fa
            br, ch, srv = fa.mk_broker()
            await br.queue_declare("default")
            await br.enqueue(key, "p", params)
            clock.set(T0 + age_s * SEC)
            cons = br.get_consumer("default", ["job"])
            await cons.start()
            out["got"] = await try_consume(cons, timeout=1)

    run_async(main, clock=clock)
    S.cover("aware-timestamp")
    expired = age_s > 3600
    S.check("never-handed-over-after-expiry" if expired else "withheld-only-when-expired", (out["got"] is None) == expired,
            info=f"timestamp {stamp.isoformat()} (ttl 1 h), delivery {age_s} s later: {'handed over' if out['got'] is not None else 'withheld'}")


def _cb(backend):
    def scen(S):
        return h12_consume_broker(S, backend)
    scen.__name__ = "h12_consume_" + backend
    return scen


HARNESSES = [
    Harness(
        name="H12-consume-mem", scenario=h12_consume_mem,
        bounds={"timestamp": "2000..2050", "ttl": "None or [0, 100 y] (Parameters built directly; Job itself refuses ttl < 1 s)", "delivery instant": "2000..2100 (incl. exactly at expiry)",
                "origin": "waiting, delayed (due time symbolic), or arriving 0.5 ms / 0.3 s / 1.2 s after the consumer started polling an empty queue"},
        functions=["connections/in_memory/consumer.py:_InMemoryConsumer.consume", "data/_parameters.py:Parameters.is_overdue"],
        covers=["handed-over", "withheld", "not-due"],
    ),
    Harness(
        name="H12-step", scenario=h12_step, workers=8,
        bounds={"as H04-step": "any retry state, period, back-off; ttl None or [1 s, 100 y]"},
        functions=["data/_parameters.py:Parameters._prepare_reschedule", "data/_parameters.py:Parameters._prepare_retry"],
        covers=["after-retry", "after-reschedule", "handed-over", "withheld", "dead-lettered"],
    ),
]
HARNESSES += [
    Harness(name="H12-aware-rabbit", scenario=h12_aware, params={"quick": {"backend": "rabbit"}, "thorough": {"backend": "rabbit"}},
            bounds={"timestamp": "concrete, written with a UTC offset of +3 h, -3 h or 0", "ttl": "1 h", "delivery": "0.5 h or 1.5 h after the timestamp"},
            functions=["data/_parameters.py:Parameters.decode", "data/_parameters.py:Parameters.is_overdue"], covers=["aware-timestamp"],
            stubs=["fake AMQP server; concrete values (time zones are not symbolic)"]),
    Harness(name="H12-aware-redis", scenario=h12_aware, params={"quick": {"backend": "redis"}, "thorough": {"backend": "redis"}},
            bounds={"as H12-aware-rabbit": "through the Redis wire format"}, covers=["aware-timestamp"], stubs=["fake Redis server; concrete values"]),
    Harness(name="H12-job", scenario=h12_job, workers=4,
            bounds={"creation instant": "2000..2050", "ttl": "[1 s, 100 y] (Job refuses less)", "deferred_until": "absent or any µs after creation up to 2100",
                    "deferred_by": "absent or [1 s, 40 d]", "delivery instant": "any µs from creation to 2100"},
            functions=["job.py:Job.__init__", "job.py:Job.enqueue", "data/_parameters.py:Parameters.is_overdue"],
            covers=["handed-over", "withheld", "not-due"]),
    Harness(name="H12-redis-maintenance", scenario=h12_redis_maintenance, workers=4,
            bounds={"ttl": "[1 s, 1 h]", "delivered": "any µs within the ttl", "maintenance by another connection": "0..500 s after the delivery (execution timeout 10 min)"},
            functions=["connections/redis/message_broker.py:RedisMessageBroker.maintenance"], covers=["maintenance-while-held"], stubs=["fake Redis server"]),
    Harness(name="H12-consume-redis", scenario=_cb("redis"),
            bounds={"timestamp": "2000..2050", "ttl": "None or [0, 100 y] (Parameters built directly; Job itself refuses ttl < 1 s)", "delivery instant": "any µs >= timestamp up to 2100", "priority": "LOW / MEDIUM / HIGH",
                    "origin": "normal list, or the delayed set with any due time >= timestamp (whole-second scores)"},
            functions=["connections/redis/consumer.py:_RedisConsumer.consume_or_none", "connections/redis/message_broker.py:RedisMessageBroker.nack"],
            covers=["handed-over", "withheld", "not-due"], stubs=["fake Redis server; parameters cross the JSON text through sentinels"]),
    Harness(name="H12-consume-rabbit", scenario=_cb("rabbit"),
            bounds={"as H12-consume-redis": "through _RabbitConsumer.on_new_message on the fake AMQP channel"},
            functions=["connections/rabbitmq/consumer.py:_RabbitConsumer.on_new_message"],
            covers=["handed-over", "withheld"], stubs=["fake AMQP server: nack(requeue=False) dead-letters as declared by repid's queue_declare"]),
]
ASSUMPTIONS = ["expiry is evaluated at the instant the consumer looks at the message (pinned symbolic clock)"]
