"""C09 - concurrency never exceeds tasks_limit and the worker never stalls."""
from __future__ import annotations

import asyncio
from fractions import Fraction

from engine.harness import Harness
from engine.symx import SNum, all_of, any_of, implies, neg
from engine.vloop import Deadlock
from engine.vtime import real_timedelta
from harness.common import SEC, World, mem_places, observe_consumers, place_names, run_async


def h09_timeout_cleanup(S):
    """An actor that exceeds its execution timeout and needs time to clean up still occupies its slot."""
    from repid import Job, Router, Worker
    from repid.converter import BasicConverter

    c = S.real("cleanup_s", 0, Fraction(1, 2), lo_strict=True)
    limit = S.int("tasks_limit", 1, 2)
    n = 3
    state = {"running": 0, "max": 0}
    out = {}

    async def main(loop):
        w = World()
        await w.open(record=False)
        r = Router()

        @r.actor(converter=BasicConverter)
        async def job(i: int):
            state["running"] += 1
            S.check("running-within-limit", limit >= state["running"], info=f"running={state['running']} (an invocation still cleaning up counts)")
            try:
                await asyncio.sleep(2)          # longer than the 1 s execution timeout
            finally:
                await asyncio.sleep(c)          # clean-up after the cancellation
                state["running"] -= 1

        for i in range(n):
            await Job("job", args={"i": i}, id_=f"m{i}", timeout=real_timedelta(seconds=1), _connection=w.conn).enqueue()
        worker = Worker(routers=[r], handle_signals=[], _connection=w.conn, graceful_shutdown_time=5.0, messages_limit=n, tasks_limit=limit)
        try:
            await asyncio.wait_for(worker.run(), timeout=30)
            out["returned"] = True
        except asyncio.TimeoutError:
            out["returned"] = False

    run_async(main)
    S.cover("timeouts-with-cleanup")
    S.check("no-stall", out["returned"])


def h09_rabbit(S):
    """RabbitMQ: the prefetch window (= tasks_limit) stays fully usable after retries, so free slots get deliverable messages."""
    from repid import Job, Router, Worker
    from repid.converter import BasicConverter

    confirm = [0, 3][S.pick("confirm_after_delivery", 2)]
    backoff_ms = [0, 5][S.pick("retry_backoff_ms", 2)]
    n_warmup = [0, 4][S.pick("earlier_saturation_episode", 2)]
    runs = []
    done = []
    out = {}

    async def main(loop):
        w = World(backend="rabbit")
        await w.open(record=False)
        w.srv.confirm_turns = confirm
        r = Router()
        gate = asyncio.Event()

        @r.actor(converter=BasicConverter, retry_policy=lambda retry_number=1: real_timedelta(milliseconds=backoff_ms))
        async def flaky():
            runs.append("flaky")
            if runs.count("flaky") == 1:
                raise ValueError("first attempt fails")
            done.append("flaky")

        @r.actor(converter=BasicConverter)
        async def long():
            runs.append("long")
            await asyncio.wait_for(gate.wait(), timeout=Fraction(1, 2))      # needs `short` to run next to it
            done.append("long")

        @r.actor(converter=BasicConverter)
        async def short():
            runs.append("short")
            gate.set()
            done.append("short")

        @r.actor(converter=BasicConverter)
        async def warmup():
            runs.append("warmup")
            await asyncio.sleep(Fraction(1, 100))
            done.append("warmup")

        await Job("flaky", retries=1, _connection=w.conn).enqueue()
        for _ in range(n_warmup):
            await Job("warmup", _connection=w.conn).enqueue()       # more than the worker's two slots: it saturates, pauses and resumes
        worker = Worker(routers=[r], handle_signals=[], _connection=w.conn, graceful_shutdown_time=1.0, messages_limit=4 + n_warmup, tasks_limit=2)
        task = asyncio.create_task(worker.run())
        await asyncio.sleep(Fraction(3, 10))            # all of that has been processed; the worker is idle with two free slots
        await Job("long", _connection=w.conn).enqueue()
        await Job("short", _connection=w.conn).enqueue()
        try:
            await asyncio.wait_for(task, timeout=3)
            out["returned"] = True
        except asyncio.TimeoutError:
            out["returned"] = False

    try:
        run_async(main)
    except Deadlock:
        S.check("no-stall", False, info="deadlock")
        return
    S.cover("rabbit-retry-then-two-jobs")
    S.check("free-slot-gets-the-next-deliverable-message", sorted(x for x in done if x != "warmup") == ["flaky", "long", "short"] and out["returned"],
            info=f"runs={runs} completed={done}: with two slots `short` must run while `long` waits for it")


def h09(S, n_jobs=2, queues=1, max_limit=3, dmax_us=3000, late=False, backend="mem", late_max_us=None, fixed_d_us=None, self_cancel=False, foreign=False):
    from repid import Job, Router, Worker
    from repid.converter import BasicConverter

    limit = S.int("tasks_limit", 1, max_limit)
    dmax = Fraction(dmax_us, 10**6)
    if late and late_max_us is not None and fixed_d_us:
        d = [Fraction(fixed_d_us, 10**6)] * n_jobs      # concrete durations: the symbolic part is the burst's polling phase
    else:
        d = [S.real(f"d{i}", 0, dmax, lo_strict=True) for i in range(n_jobs)]
    fails = [S.bool(f"fail{i}") for i in range(n_jobs)]
    # an invocation may also end in CancelledError of its own making (it awaited something that was cancelled elsewhere)
    cancels = [S.flag(f"ends_cancelled{i}") if self_cancel and i == 0 else False for i in range(n_jobs)]
    burst = late and late_max_us is not None
    if burst:
        # the worker is up and idle first; a burst arrives at 0.5 s + phase (any polling phase of the consumer),
        # the last job arrives a fixed 0.3 s, 1 s or 2.1 s after the burst (far-apart instants are enumerated)
        phase = S.real("burst_phase_s", 0, Fraction(1, 10))
        arrive = [Fraction(3, 10), Fraction(1), Fraction(21, 10)][S.pick("late_arrival_choice", 3)]
    else:
        arrive = S.real("late_arrival", 0, dmax) if late else None
    state = {"running": 0, "done": [], "started": [], "max": 0}
    out = {}
    qnames = ["q%d" % i for i in range(queues)]

    async def main(loop):
        w = World(backend=backend)
        await w.open(queues=qnames, record=False)
        log = observe_consumers(w.broker)
        r = Router()
        for qn in qnames:
            @r.actor(name="job_" + qn, queue=qn, converter=BasicConverter)
            async def job(i: int):
                state["running"] += 1
                state["started"].append(i)
                log.append(("enter", i, state["running"]))
                S.check("running-within-limit", limit >= state["running"], info=f"running={state['running']}")
                await asyncio.sleep(d[i])
                state["running"] -= 1
                state["done"].append(i)
                log.append(("exit", i, state["running"]))
                if cancels[i]:
                    raise asyncio.CancelledError()
                if fails[i]:
                    raise ValueError("x")
        if foreign and S.flag("foreign_message_whose_topic_extends_a_served_one"):
            # another service shares the queue; its topic merely begins like one of ours
            await Job("job_" + qnames[0] + "_report", queue=qnames[0], args={"i": 99}, id_="foreign", _connection=w.conn).enqueue()
        n_pre = 0 if burst else (n_jobs - 1 if late else n_jobs)
        for i in range(n_pre):
            qn = qnames[i % queues]
            await Job("job_" + qn, queue=qn, args={"i": i}, id_=f"m{i}", _connection=w.conn).enqueue()
        worker = Worker(routers=[r], handle_signals=[], _connection=w.conn, graceful_shutdown_time=1.0,
                        messages_limit=n_jobs, tasks_limit=limit)
        if burst:
            async def producer():
                await asyncio.sleep(Fraction(1, 2) + phase)
                for i in range(n_jobs - 1):
                    qn = qnames[i % queues]
                    await Job("job_" + qn, queue=qn, args={"i": i}, id_=f"m{i}", _connection=w.conn).enqueue()
                await asyncio.sleep(arrive)
                i = n_jobs - 1
                qn = qnames[i % queues]
                await Job("job_" + qn, queue=qn, args={"i": i}, id_=f"m{i}", _connection=w.conn).enqueue()
            asyncio.create_task(producer())
        elif late:
            async def producer():
                await asyncio.sleep(arrive)
                i = n_jobs - 1
                qn = qnames[i % queues]
                await Job("job_" + qn, queue=qn, args={"i": i}, id_=f"m{i}", _connection=w.conn).enqueue()
            asyncio.create_task(producer())
        t0 = loop.time()
        total_s = sum(d[1:], d[0]) + (arrive if late else 0) + (Fraction(6, 10) if burst else 0)
        try:
            await asyncio.wait_for(worker.run(), timeout=total_s + (1.0 if backend == "mem" else 10.0))
            out["returned"] = True
        except asyncio.TimeoutError:
            out["returned"] = False
        out["makespan"] = loop.time() - t0
        out["places"] = {qn: w.places(qn) for qn in qnames}
        out["log"] = log

    try:
        run_async(main)
    except Deadlock:
        S.check("no-stall", False, info="event loop deadlocked: " + str(state))
        return
    S.check("no-stall", out["returned"], info="Worker.run() did not return within sum of durations + 1 s: " + str(state))
    if not out["returned"]:
        return
    S.cover("run-returned")
    S.check("all-jobs-executed", sorted(state["done"]) == list(range(n_jobs)), info=str(state))
    S.check("each-job-once", len(state["started"]) == n_jobs, info=str(state["started"]))
    total = sum(d[1:], d[0])
    bound = total + (arrive if late else 0) + (Fraction(6, 10) if burst else 0)
    S.check("finishes-within-sum-of-durations-plus-slack", out["makespan"] <= bound + (0.05 if backend == "mem" else 2.0),
            info=str(out["makespan"]))
    # while a consumer is paused nothing is delivered from it, and every pause is followed by an unpause
    log = out["log"]
    paused = {}
    for ev in log:
        if ev[0] == "deliver":
            S.check("no-delivery-while-paused", not paused.get(ev[2], False), info=str(log))
        elif ev[0] == "pause":
            S.cover("pause-observed")
            paused[ev[1]] = True
        elif ev[0] == "unpause":
            paused[ev[1]] = False
    # (run_one_queue pauses every consumer once more when it stops consuming: allowed)


def h09_expired_while_waiting(S):
    """A saturated worker holds a message whose time-to-live runs out while it waits for a free slot: whatever happens to that
    message, the slot it waited for is not lost - the jobs behind it are executed."""
    from repid import Job, Router, Worker
    from repid.converter import BasicConverter

    limit = S.pick("tasks_limit", 2) + 1
    n_short_lived = S.pick("short_lived_messages", 2) + 1
    ran = []
    out = {}

    async def main(loop):
        w = World()
        await w.open(record=False)
        r = Router()

        @r.actor(converter=BasicConverter)
        async def job(i: int, d: float = 0.0):
            ran.append(i)
            await asyncio.sleep(Fraction(str(d)))

        for i in range(limit):
            await Job("job", args={"i": i, "d": 2.0}, id_=f"long{i}", _connection=w.conn).enqueue()
        for k in range(n_short_lived):
            await Job("job", args={"i": 100 + k}, id_=f"ttl{k}", ttl=real_timedelta(seconds=1), _connection=w.conn).enqueue()
        for k in range(2):
            await Job("job", args={"i": 200 + k}, id_=f"plain{k}", _connection=w.conn).enqueue()
        worker = Worker(routers=[r], handle_signals=[], _connection=w.conn, graceful_shutdown_time=1.0, tasks_limit=limit,
                        messages_limit=limit + n_short_lived + 2)
        task = asyncio.create_task(worker.run())
        await asyncio.sleep(12)
        out["plain_ran"] = sorted(i for i in ran if i >= 200)
        task.cancel()
        await asyncio.gather(task, return_exceptions=True)

    run_async(main)
    S.cover("expired-while-waiting")
    S.check("no-stall", out["plain_ran"] == [200, 201], info=f"tasks_limit={limit}: executed {ran}; the plain jobs behind the short-lived ones: {out['plain_ran']}")


HARNESSES = [
    Harness(
        name="H09-mem", scenario=h09, workers=16, budget_s=900,
        params={"quick": {"n_jobs": 2, "queues": 1, "dmax_us": 3000, "self_cancel": True},
                "thorough": {"n_jobs": 3, "queues": 1, "dmax_us": 3000, "self_cancel": True}},
        bounds={"tasks_limit": "[1, 3] (symbolic, flows into the real asyncio.Semaphore)", "jobs": "2 quick / 3 thorough, pre-enqueued",
                "actor durations": "each any real value in (0, 3 ms] (symbolic timers, linear real arithmetic)",
                "outcomes": "return, raise, and (first job) end in a CancelledError of its own making"},
        functions=["_runner.py:_Runner._run_consumer", "_runner.py:_Runner._task_callback", "worker.py:Worker.run"],
        covers=["run-returned", "pause-observed"],
        outside=["RabbitMQ prefetch (server)", "sync actors (thread pool)", "durations above 3 ms (ordering classes repeat with the 1 ms polling period)"],
    ),
    Harness(
        name="H09-two-queues", scenario=h09, workers=16, budget_s=900,
        params={"quick": {"n_jobs": 3, "queues": 2, "dmax_us": 1500, "max_limit": 2},
                "thorough": {"n_jobs": 3, "queues": 2, "dmax_us": 2000, "max_limit": 2}},
        bounds={"queues": "2 (one consumer loop each, shared limiter)", "tasks_limit": "[1, 2]", "durations": "(0, 2 ms]"},
        functions=["_runner.py:_Runner.run_one_queue"],
        covers=["run-returned"],
    ),
    Harness(
        name="H09-redis", scenario=h09, workers=16, budget_s=900,
        params={"quick": {"n_jobs": 2, "queues": 1, "dmax_us": 250000, "max_limit": 2, "backend": "redis", "foreign": True},
                "thorough": {"n_jobs": 3, "queues": 1, "dmax_us": 250000, "max_limit": 2, "backend": "redis", "foreign": True}},
        bounds={"broker": "real Redis broker/consumer (background fetch, prefetch buffer bounded by tasks_limit, pause lock) on the fake server",
                "actor durations": "each any real in (0, 250 ms] (the consumer polls every 100 ms)", "tasks_limit": "[1, 2]", "jobs": "2 quick / 3 thorough",
                "shared queue": "with or without a foreign message whose topic extends a served topic"},
        functions=["connections/redis/consumer.py:_RedisConsumer.pause", "connections/redis/consumer.py:_RedisConsumer.backgroud_consume"],
        covers=["run-returned", "pause-observed"], stubs=["fake Redis server"]),
    Harness(
        name="H09-timeout-cleanup", scenario=h09_timeout_cleanup, workers=8,
        bounds={"actors": "3 jobs sleeping 2 s under a 1 s execution timeout, each needing any real clean-up time in (0, 0.5 s] after cancellation", "tasks_limit": "[1, 2]"},
        functions=["_processor.py:_Processor._actor_run"], covers=["timeouts-with-cleanup"]),
    Harness(
        name="H09-redis-late-arrival", scenario=h09, workers=16, budget_s=900,
        params={"quick": {"n_jobs": 3, "queues": 1, "dmax_us": 150000, "max_limit": 1, "backend": "redis", "late": True, "late_max_us": 2500000, "fixed_d_us": 150000},
                "thorough": {"n_jobs": 3, "queues": 1, "dmax_us": 250000, "max_limit": 1, "backend": "redis", "late": True, "late_max_us": 2500000}},
        bounds={"broker": "Redis consumer on the fake server", "jobs": "worker idle first; a burst of 2 at 0.5 s + any real phase in [0, 0.1 s]; a third 0.3 s, 1 s or 2.1 s later", "durations": "150 ms each (quick) / any real in (0, 250 ms] (thorough)", "tasks_limit": "1"},
        covers=["run-returned"], stubs=["fake Redis server"]),
    Harness(
        name="H09-late-arrival", scenario=h09, workers=16, budget_s=900, tiers=("thorough",),
        params={"thorough": {"n_jobs": 2, "queues": 1, "dmax_us": 2000, "late": True}},
        bounds={"late job arrival": "any instant in [0, 2 ms] after worker start (symbolic)"},
        covers=["run-returned"],
    ),
]
HARNESSES.append(
    Harness(name="H09-rabbit", scenario=h09_rabbit,
            bounds={"jobs": "one job that fails once and is retried (back-off 0 or 5 ms), then a job that waits up to 0.5 s for another one to run beside it",
                    "tasks_limit": "2 (= prefetch window)", "publisher confirm": "before or after the delivery it causes"},
            functions=["connections/rabbitmq/message_broker.py:RabbitMessageBroker.requeue", "connections/rabbitmq/consumer.py:_RabbitConsumer.on_new_message"],
            covers=["rabbit-retry-then-two-jobs"], stubs=["fake AMQP server with a prefetch window"]))
from harness.c11 import h11_redis_window  # noqa: E402

HARNESSES.append(
    Harness(name="H09-redis-window", scenario=h11_redis_window, workers=8,
            bounds={"as H11-redis-window": "free slots and a deliverable own job behind 1..5 foreign messages, fetch window 2, normal list or due-delayed set"},
            functions=["connections/redis/consumer.py:_RedisConsumer.__fetch_message_name", "worker.py:Worker.run"], covers=["window-checked"],
            stubs=["fake Redis server"]))
ASSUMPTIONS = ["virtual time: timers fire exactly at their deadline; the 1 ms polling of the in-memory consumer runs concretely",
               "every path is one ordering class of timer events, decided by z3 over the symbolic durations"]
HARNESSES.append(Harness(name="H09-expired-while-waiting", scenario=h09_expired_while_waiting, workers=4,
                         bounds={"tasks_limit": "1..2, saturated by 2 s jobs", "held messages": "1..2 with a ttl of 1 s, then two plain jobs"},
                         functions=["_runner.py:_Runner._run_consumer"], covers=["expired-while-waiting"]))

from engine.harness import borrowed  # noqa: E402
HARNESSES.append(borrowed("c05", "H05-mem", "H09-delayed-liveness"))      # a due delayed message is picked up while a slot is free
HARNESSES.append(borrowed("c11", "H11-router", "H09-routers"))            # every included router's actors are served
HARNESSES.append(borrowed("c11", "H11-worker", "H09-routers-worker"))
HARNESSES.append(borrowed("c05", "H05-mem-steady-load", "H09-due-under-load"))   # a due retry or deferred job is executed although the backlog never runs empty
