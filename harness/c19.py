"""C19 - schedule arithmetic is well-behaved for all inputs."""
from __future__ import annotations

from engine import vtime
from engine.harness import Harness
from engine.symx import all_of, any_of, implies, neg
from engine.vtime import FreeClock, VTimedelta, real_timedelta
from harness.common import run_async

SEC = 1_000_000
Y1970, Y2100 = 0, 4_102_444_800 * SEC
TD_MAX_US = real_timedelta.max // real_timedelta(microseconds=1)


def h19a_policy(S):
    """default_retry_policy_factory: bounds, monotonicity, no overflow."""
    import repid.retry_policy as RP
    mn = S.int("min_backoff", 1, 10**9)
    mx = S.int("max_backoff", 1, 10**9)
    mult = S.int("multiplier", 1, 10**12)
    mexp = S.int("max_exponent", 1, 10**5)
    n = S.int("n", 1, 10**5)
    S.assume(mn <= mx)
    pol = RP.default_retry_policy_factory(mn, mx, mult, mexp)
    try:
        d1 = pol(n)
        d2 = pol(n + 1)
        d0 = pol()  # default retry_number=1
    except OverflowError:
        S.check("no-overflow", False)
        return
    S.cover("policy-evaluated")
    S.check("no-overflow", all_of(d1 <= real_timedelta.max, d1 >= real_timedelta.min))
    S.check("lower-bound", d1 >= VTimedelta(seconds=mn))
    S.check("upper-bound", d1 <= VTimedelta(seconds=mx))
    S.check("monotone", d1 <= d2)
    S.check("whole-seconds", (d1 // real_timedelta(microseconds=1)) % SEC == 0)
    S.check("default-arg-is-first-retry", implies(n == 1, d0 == d1))
    # exact value (oracle written independently of the implementation's min/max nesting)
    e = n if (n <= mexp) else mexp
    raw = mult * 2 ** e
    want = raw if (raw <= mx) else mx
    want = want if (want >= mn) else mn
    S.check("value", d1 == VTimedelta(seconds=want))


def h19b_next(S):
    """Parameters.compute_next_execution_time for all ts, now, period, optional deferred_until."""
    import repid.data._parameters as P
    clock = FreeClock(S, "now", Y1970, Y2100)
    vtime.set_clock(clock)
    try:
        ts = S.int("timestamp", Y1970, Y2100)
        p = S.int("period", SEC, 100 * 366 * 86400 * SEC)
        has_du = S.bool("has_deferred_until")
        du = S.int("deferred_until", Y1970, Y2100)
        has_p = S.bool("has_period")
        has_prev = S.bool("has_previous_slot")
        prev = S.int("previous_slot", Y1970, Y2100)
        delay = P.DelayProperties(
            delay_until=S.datetime_us(du) if has_du else None,
            defer_by=S.timedelta_us(p) if has_p else None,
            next_execution_time=S.datetime_us(prev) if has_prev else None,
        )
        params = P.Parameters(delay=delay, timestamp=S.datetime_us(ts))
        r = params.compute_next_execution_time
        now = clock.reads[-1]
        S.assume(len(clock.reads) == 1)
        if has_du and du > now:
            S.cover("deferred-ahead")
            S.check("equals-deferred_until-while-ahead", r == S.datetime_us(du))
            return
        if not has_p:
            S.cover("one-shot")
            S.check("none-without-period", r is None)
            return
        S.cover("periodic")
        S.check("not-none", r is not None)
        if r is None:
            return
        ru = vtime.dt_us(r)
        S.check("strictly-future", ru > now)
        S.check("at-most-one-period-ahead", ru <= now + p)
        # time base: the previous slot if the job has run before, else the deferred start, else creation
        base = prev if has_prev else (du if has_du else ts)
        S.check("whole-periods-after-time-base", (ru - base) % p == 0)
        S.check("no-slot-skipped", ru - p <= now)
    finally:
        vtime.set_clock(None)


def _overdue_oracle(S, label, got, has_ttl, now, ts, ttl):
    want = all_of(has_ttl, now > ts + ttl) if not isinstance(has_ttl, bool) else (has_ttl and now > ts + ttl)
    S.check(label, got == want if not isinstance(got, bool) or not isinstance(want, bool) else got == want)


def h19c_overdue(S):
    """is_overdue <=> ttl is not None and now > timestamp + ttl on Parameters, buckets and Job."""
    import repid.data._buckets as B
    import repid.data._parameters as P
    from repid import Connection, InMemoryMessageBroker, Job
    which = S.pick("class", 4)
    clock = FreeClock(S, "now", Y1970, Y2100)
    vtime.set_clock(clock)
    try:
        ts = S.int("timestamp", Y1970, Y2100)
        ttl = S.int("ttl", 0, 100 * 366 * 86400 * SEC)
        has_ttl = S.flag("has_ttl")
        ttl_v = S.timedelta_us(ttl) if has_ttl else None
        S.tag("class", ["Parameters", "ArgsBucket", "ResultBucket", "Job"][which])
        if which == 0:
            obj = P.Parameters(timestamp=S.datetime_us(ts), ttl=ttl_v)
        elif which == 1:
            obj = B.ArgsBucket(data="x", timestamp=S.datetime_us(ts), ttl=ttl_v)
        elif which == 2:
            obj = B.ResultBucket(data="x", started_when=1, finished_when=2, timestamp=S.datetime_us(ts), ttl=ttl_v)
        else:
            conn = Connection(InMemoryMessageBroker())
            if has_ttl:
                S.assume(ttl >= SEC)  # Job refuses a ttl under one second (documented precondition)
            # a deferral does not move the expiry: it is counted from the job's creation
            until = S.datetime_us(S.int("deferred_until", Y1970, Y2100)) if S.flag("has_deferred_until") else None
            obj = Job("job", ttl=ttl_v, deferred_until=until, _connection=conn)
            S.assume(clock.reads[0] == ts)  # Job stamps itself with the clock
        got = obj.is_overdue
        S.cover("overdue-evaluated")
        if has_ttl and not clock.reads:
            # expiry was decided without looking at the clock: it cannot be "now > timestamp + ttl"
            S.check("overdue-iff-now-after-expiry", False, info=f"is_overdue = {got!r} for ttl = {ttl} µs was computed without reading the clock")
        elif has_ttl:
            now = clock.reads[-1]
            S.check("overdue-iff-now-after-expiry", got == (now > ts + ttl))
            S.check("not-overdue-exactly-at-expiry", implies(now == ts + ttl, neg(got)))
        else:
            S.check("never-overdue-without-ttl", got is False or got == False)  # noqa: E712
    finally:
        vtime.set_clock(None)


HARNESSES = [
    Harness(
        name="H19a-retry-policy", scenario=h19a_policy,
        bounds={"min_backoff,max_backoff": "[1, 1e9] s, min<=max", "multiplier": "[1, 1e12]",
                "max_exponent": "[1, 1e5]", "retry_number n": "[1, 1e5]",
                "2**e": "uninterpreted pow2 with exact values for e<=64, positivity, strict monotonicity and doubling axioms"},
        functions=["retry_policy.py:default_retry_policy_factory.<locals>.inner"],
        covers=["policy-evaluated"],
        outside=["retry numbers and exponents above 1e5 (replay cost of 2**e)"],
    ),
    Harness(
        name="H19b-next-execution-time", scenario=h19b_next,
        bounds={"timestamp, now, deferred_until": "any microsecond in 1970..2100",
                "period": "[1 s, 100 y] at microsecond granularity"},
        functions=["data/_parameters.py:Parameters.compute_next_execution_time"],
        covers=["deferred-ahead", "one-shot", "periodic"],
        outside=["cron schedules (croniter not installed)", "tz-aware datetimes"],
    ),
    Harness(
        name="H19c-is-overdue", scenario=h19c_overdue,
        bounds={"timestamp, now": "any microsecond in 1970..2100", "ttl": "None or [0, 100 y] (Job: [1 s, 100 y], it refuses less)"},
        functions=["data/_parameters.py:Parameters.is_overdue"],
        covers=["overdue-evaluated"],
    ),
]

ASSUMPTIONS = [
    "clock contract: successive datetime.now() reads are non-decreasing; each read is a fresh symbolic instant",
    "datetime/timedelta arithmetic modelled as exact integer microsecond arithmetic (CPython semantics for naive values)",
]

def h19_redis_bucket(S):
    """A bucket stored in Redis disappears when its own timestamp + ttl has passed, whenever it was stored."""
    import repid.data._buckets as B
    from engine.vtime import PinnedClock
    from fakes import redis as fr

    ts = S.int("timestamp", Y1970 + 10**15, Y2100 - 10**15)
    ttl = S.int("ttl", SEC, 10 * 366 * 86400 * SEC)
    stored_after = S.int("stored_after", 0, 366 * 86400 * SEC)          # the bucket may be stored later than it was stamped
    read_after = S.int("read_after", 0, 12 * 366 * 86400 * SEC)
    S.assume(stored_after < ttl)                                       # it is still alive when stored
    which = S.pick("bucket_class", 2)
    # the machine's UTC offset, in quarter hours: timestamps are local wall-clock readings, Redis counts unix seconds
    zone = S.int("utc_offset_quarter_hours", -48, 56) * (900 * SEC)
    clock = PinnedClock(ts + stored_after)
    out = {}

    async def main(loop):
        srv = fr.FakeServer(clock=lambda: clock.time())
        br = fr.mk_bucket_broker(srv, use_result_bucket=bool(which))
        if which:
            bucket = B.ResultBucket(data="x", started_when=1, finished_when=2, timestamp=S.datetime_us(ts), ttl=S.timedelta_us(ttl))
        else:
            bucket = B.ArgsBucket(data="x", timestamp=S.datetime_us(ts), ttl=S.timedelta_us(ttl))
        await br.store_bucket("b1", bucket)
        clock.set(ts + stored_after + read_after)
        out["got"] = await br.get_bucket("b1")

    from engine.vtime import local_zone
    with local_zone(zone):
        run_async(main, clock=clock)
    now = ts + stored_after + read_after
    if out["got"] is not None:
        S.cover("bucket-alive")
        S.check("bucket-gone-once-timestamp-plus-ttl-passed", now <= ts + ttl + SEC, info="still returned more than a second after timestamp + ttl")
    else:
        S.cover("bucket-gone")
        S.check("bucket-kept-until-timestamp-plus-ttl", now >= ts + ttl - SEC, info="gone more than a second before timestamp + ttl")


def h19_job_enqueue_gap(S):
    """A job built first and enqueued later: its message is stamped with the job's creation time, the one Job.is_overdue counts from."""
    from repid import Connection, InMemoryMessageBroker, Job
    from engine.vtime import PinnedClock

    created = S.int("created_at", Y1970 + 10**15, Y2100 - 10**15)
    gap = S.int("enqueued_after", 0, 366 * 86400 * SEC)
    has_ttl = S.flag("has_ttl")
    ttl = S.int("ttl", SEC, 10 * 366 * 86400 * SEC)
    periodic = S.flag("periodic")
    period = S.int("period", SEC, 366 * 86400 * SEC)
    # a periodic job may name its time base itself (deferred_until), before or after its creation
    has_base = periodic and S.flag("has_deferred_until")
    base_off = S.int("deferred_until_minus_creation", -366 * 86400 * SEC, 366 * 86400 * SEC) if has_base else 0
    clock = PinnedClock(created)
    out = {}

    async def main(loop):
        conn = Connection(InMemoryMessageBroker())
        await conn.connect()
        job = Job("job", ttl=S.timedelta_us(ttl) if has_ttl else None, deferred_by=S.timedelta_us(period) if periodic else None,
                  deferred_until=S.datetime_us(created + base_off) if has_base else None, _connection=conn)
        await job.queue.declare()
        clock.set(created + gap)
        out["sent"] = await job.enqueue()
        out["job_overdue"] = job.is_overdue
        out["msg_overdue"] = out["sent"][2].is_overdue
        out["first"] = out["sent"][2].compute_next_execution_time        # read while the harness clock is in force

    run_async(main, clock=clock)
    params = out["sent"][2]
    S.cover("enqueued-later")
    S.check("message-timestamp-is-the-jobs-creation-time", vtime.dt_us(params.timestamp) == created)
    S.check("job-and-message-agree-on-expiry", out["job_overdue"] == out["msg_overdue"])
    if periodic:
        first = out["first"]
        now = created + gap
        if has_base:
            base = created + base_off
            S.check("first-slot-whole-periods-after-its-time-base", (vtime.dt_us(first) - base) % period == 0,
                    info="the first slot is not a whole number of periods after deferred_until")
            S.check("first-slot-is-deferred_until-while-that-is-ahead", implies(base > now, vtime.dt_us(first) == base))
        else:
            S.check("first-slot-whole-periods-after-creation", (vtime.dt_us(first) - created) % period == 0)


# the same arithmetic as used by the reschedule path (time base and clock are chosen by _prepare_reschedule)
from harness.c06 import h06_step  # noqa: E402

from harness.c05 import h05_rabbit  # noqa: E402

HARNESSES += [
    Harness(name="H19g-job-enqueue-gap", scenario=h19_job_enqueue_gap, workers=4,
            bounds={"creation instant": "any µs", "enqueue": "0 .. 1 year later", "ttl": "absent or [1 s, 10 y]", "period": "absent or [1 s, 1 y]"},
            functions=["job.py:Job._construct_parameters", "job.py:Job.is_overdue", "data/_parameters.py:Parameters.compute_next_execution_time"],
            covers=["enqueued-later"]),
    Harness(name="H19f-rabbit-expiration", scenario=h05_rabbit, params={"quick": {"via": "enqueue"}, "thorough": {"via": "enqueue"}},
            bounds={"due time, publish instant": "any microsecond in 2000..2100: the per-message expiration is the whole distance to the due time (days included)"},
            functions=["connections/rabbitmq/message_broker.py:RabbitMessageBroker.enqueue"], covers=["published-delayed"],
            stubs=["fake AMQP channel records the publish"]),
    Harness(name="H19e-redis-bucket-expiry", scenario=h19_redis_bucket, workers=4,
            bounds={"timestamp": "any µs", "ttl": "[1 s, 10 y]", "utc offset of the machine": "-12:00 .. +14:00 in quarter hours", "stored": "any time while alive (up to a year after the timestamp)", "read": "up to 12 years later",
                    "tolerance": "one second (Redis expiry is in whole seconds)"},
            functions=["connections/redis/bucket_broker.py:RedisBucketBroker.store_bucket", "connections/redis/bucket_broker.py:RedisBucketBroker.get_bucket"],
            covers=["bucket-alive", "bucket-gone"], stubs=["fake Redis server: SET with EXAT / EX, expiry against the virtual clock"]),
    Harness(name="H19d-reschedule-grid", scenario=h06_step, workers=8,
            bounds={"as H06-step": "one completed iteration from an arbitrary valid state: period [1 s, 100 y], any clock, timestamps, previous slot"},
            functions=["data/_parameters.py:Parameters._prepare_reschedule", "data/_parameters.py:Parameters.compute_next_execution_time"],
            covers=["iteration-completed"],
            stubs=["state constructed directly (see H06-step)"]),
]


from engine.harness import borrowed  # noqa: E402
HARNESSES.append(borrowed("c12", "H12-consume-mem", "H19h-consumer-expiry"))   # the consumer's expiry decision is "now > timestamp + ttl" at the moment of delivery
HARNESSES.append(borrowed("c15", "H15-redis-past-due", "H19i-redis-past-anchor"))   # a time base that is already over schedules nothing in the past
HARNESSES.append(borrowed("c12", "H12-step", "H19j-expiry-after-retry"))           # a retried message expires at the same instant as its job
