"""C10 - messages_limit is an upper bound and a stop condition."""
from __future__ import annotations

import asyncio
from fractions import Fraction

from engine.harness import Harness
from engine.vtime import real_timedelta
from engine.symx import all_of, any_of, implies, neg
from engine.vloop import Deadlock
from harness.common import World, mem_places, place_names, run_async


def h10(S, max_m=2, extra_max=2, queues=1, max_limit=3, dmax_us=2000, zero=False, backend="mem", latency_us=0, dmin_us=0, idle_queue=False, min_m=1, extra_min=1, stagger=0):
    from repid import Job, Router, Worker
    from repid.converter import BasicConverter

    M = S.pick("messages_limit", max_m) + min_m
    extra = S.pick("backlog_beyond_limit", extra_max) + extra_min
    B = M + extra
    limit = S.int("tasks_limit", 1, max_limit)
    dmax = Fraction(dmax_us, 10**6)
    if zero:
        d = [0] * B
    else:
        d = [S.real(f"d{i}", Fraction(dmin_us, 10**6), dmax, lo_strict=True) for i in range(B)]
    S.tag("M", M)
    S.tag("backlog", B)
    # the first execution may end with an error *after* the actor ran (a result was asked for and nobody stores results)
    report_error = S.flag("first_job_fails_after_its_actor_ran") if backend == "mem" and queues == 1 and not zero else False
    # the second queue's messages may arrive a few loop steps after the worker has started (the first queue's are there from the start)
    late_by = S.pick("second_queue_messages_arrive_after_loop_steps", stagger) if stagger and queues > 1 else 0
    # the jobs may be recurring ones whose first run is due (never run yet): beyond M they stay ready, they do not skip a period
    periodic = backend == "mem" and queues > 1 and not zero and not stagger and S.flag("recurring_jobs_on_their_first_run")
    started = []
    out = {}
    qnames = ["q%d" % i for i in range(queues)]
    # a further queue the worker serves, empty while the worker runs; a job for it arrives after run() has returned
    all_queues = qnames + (["idle"] if idle_queue else [])

    async def main(loop):
        w = World(backend=backend)
        await w.open(queues=all_queues, record=True)
        if latency_us and backend == "redis":
            # every Redis round trip takes this long, so a stop can land between any two commands of a fetch
            w.srv.latency = lambda client: Fraction(latency_us, 10**6)
        from harness.common import observe_consumers
        out["consumer_log"] = observe_consumers(w.broker)
        r = Router()
        for qn in all_queues:
            @r.actor(name="job_" + qn, queue=qn, converter=BasicConverter)
            async def job(i: int):
                started.append(i)
                if not zero:
                    await asyncio.sleep(d[i])
        before = {}
        later = []
        for i in range(B):
            qn = qnames[i % queues]
            j = Job("job_" + qn, queue=qn, args={"i": i}, id_=f"m{i}", retries=1, deferred_by=real_timedelta(hours=1) if periodic else None,
                    store_result=bool(report_error and i == 0), _connection=w.conn)
            if late_by and i % queues == 1:
                later.append((i, j))
                continue
            key, _, params = await j.enqueue()
            before[f"m{i}"] = params
        if periodic:
            # their first slot has come: the broker has moved them to the ready queue
            for qn in qnames:
                q = w.broker.queues[qn]
                for t in sorted(q.delayed):
                    for m in q.delayed.pop(t):
                        q.simple.put_nowait(m)
        if later:
            base = loop.iters
            prev_hook = loop.iter_hook

            async def publish_later():
                for i_, j in later:
                    _, _, p = await j.enqueue()
                    before[f"m{i_}"] = p

            def hook(lp):
                if prev_hook is not None:
                    prev_hook(lp)
                if lp.iters == base + late_by:
                    out["late_task"] = asyncio.ensure_future(publish_later())

            loop.iter_hook = hook
        worker = Worker(routers=[r], handle_signals=[], _connection=w.conn, graceful_shutdown_time=1.0,
                        messages_limit=M, tasks_limit=limit)
        try:
            await asyncio.wait_for(worker.run(), timeout=B * dmax + 8)
            out["returned"] = True
        except asyncio.TimeoutError:
            out["returned"] = False
        await asyncio.sleep(0.01 if backend == "mem" else 0.5)
        out["started_at_return"] = len(started)
        if idle_queue:
            await Job("job_idle", queue="idle", args={"i": 99}, id_="late", _connection=w.conn).enqueue()
            await asyncio.sleep(Fraction(3, 2))
            out["late"] = place_names(w.places("idle"), "late")
        out["places"] = {}
        for qn in qnames:
            out["places"].update(w.places(qn))
        out["before"] = before
        out["calls"] = list(w.rec.calls)
        lt = out.pop("late_task", None)
        out["late_publish"] = None if lt is None else ("pending" if not lt.done() else repr(lt.exception()))
        out["snapshot"] = (out["late_publish"], w.srv.snapshot(), [(x[0], getattr(x[2].props, "message_id", None)) for x in w.srv.dropped],
                           [getattr(getattr(m, "props", None), "message_id", None) for m in w.srv.published][-8:]) if backend == "rabbit" else None

    try:
        run_async(main)
    except Deadlock:
        S.check("run-returns", False, info="deadlock")
        return
    S.check("run-returns", out["returned"])
    if not out["returned"]:
        return
    S.cover("run-returned")
    S.check("at-most-M-executions-started", len(started) <= M, info=f"M={M} backlog={B} started={started}")
    S.check("exactly-M-when-backlog-suffices", len(started) >= M, info=f"M={M} started={started}")
    left = [i for i in range(B) if i not in started]
    for i in left:
        names = place_names(out["places"], f"m{i}")
        if names == ["processing"]:
            S.tag("left_in_flight", "never-executed")
            handed = any(e[0] == "handed-to-runner" and e[1] == f"m{i}" for e in out["consumer_log"])
            S.tag("stuck_message_reached_the_runner", handed)
        S.check("unprocessed-message-still-waiting", names == ["waiting"], info=f"m{i}: {names}" + (f" server: {out['snapshot']}" if out.get("snapshot") else ""))
        if names == ["waiting"]:
            msg = out["places"][f"m{i}"][0][1]
            S.check("unprocessed-message-untouched", msg.parameters == out["before"][f"m{i}"])
            S.check("unprocessed-message-not-counted-as-retried", msg.parameters.retries.already_tried == 0)
    for i in started:
        S.check("processed-message-gone", place_names(out["places"], f"m{i}") == (["delayed"] if periodic else []), info=str(place_names(out["places"], f"m{i}")))
    S.check("nothing-left-in-flight", all("processing" not in place_names(out["places"], f"m{i}") for i in range(B)))
    if idle_queue:
        S.cover("late-arrival")
        S.check("a-returned-worker-takes-nothing", out["late"] == ["waiting"] and 99 not in started,
                info=f"a job enqueued after Worker.run() had returned is in {out['late']} (started={started})")


def h10_plugin(S):
    """RunWorkerOnEnqueueModifier: enqueue returns after exactly that job was processed once."""
    from repid import Job, Router, Worker
    from repid.converter import BasicConverter
    from repid.testing.modifiers import RunWorkerOnEnqueueModifier

    older = S.pick("older_messages", 2)
    d = S.real("d", 0, Fraction(2, 1000))
    # what is enqueued: the job; the job whose actor enqueues a follow-up job itself; or a job with a known name on a queue
    # its actor does not serve (nobody runs it: enqueue just returns)
    variant = ["plain", "actor-enqueues-a-follow-up", "known-name-on-a-foreign-queue"][S.pick("variant", 3)] if older == 0 else "plain"
    S.tag("variant", variant)
    ran = []
    out = {}

    async def main(loop):
        w = World()
        await w.open(record=False)
        r = Router()

        @r.actor(converter=BasicConverter)
        async def job(i: int):
            ran.append(i)
            await asyncio.sleep(d)
            if variant == "actor-enqueues-a-follow-up" and i == 7:
                await Job("other", args={"i": 70}, id_="follow-up", _connection=w.conn).enqueue()
                ran.append("back-in-the-first-actor")

        @r.actor(converter=BasicConverter, name="other", queue="default")
        async def other(i: int):
            ran.append(("other", i))

        for k in range(older):
            # an older message for an actor of the same worker, enqueued before the modifier is installed
            await Job("other", args={"i": k}, id_=f"old{k}", _connection=w.conn).enqueue()
        RunWorkerOnEnqueueModifier(w.broker, lambda: Worker(routers=[r], handle_signals=[], messages_limit=1,
                                                             _connection=w.conn, graceful_shutdown_time=1.0))
        if variant == "known-name-on-a-foreign-queue":
            await w.broker.queue_declare("elsewhere")
        try:
            await asyncio.wait_for(Job("job", args={"i": 7}, id_="new", queue="elsewhere" if variant == "known-name-on-a-foreign-queue" else "default",
                                       _connection=w.conn).enqueue(), timeout=10)
            out["returned"] = True
        except asyncio.TimeoutError:
            out["returned"] = False
        out["ran_at_return"] = list(ran)
        out["places"] = {**mem_places(w.broker), **(mem_places(w.broker, "elsewhere") if variant == "known-name-on-a-foreign-queue" else {})}

    run_async(main)
    S.cover("plugin-ran")
    S.check("enqueue-returns", out["returned"], info=f"{variant}: enqueue() still blocked after 10 s; executed so far: {out['ran_at_return']}")
    if not out["returned"]:
        return
    if variant == "actor-enqueues-a-follow-up":
        S.check("each-enqueue-processes-exactly-its-job", out["ran_at_return"] == [7, ("other", 70), "back-in-the-first-actor"], info=str(out["ran_at_return"]))
        return
    if variant == "known-name-on-a-foreign-queue":
        S.check("job-on-a-queue-nobody-serves-is-not-run", out["ran_at_return"] == [] and place_names(out["places"], "new") == ["waiting"],
                info=f"ran={out['ran_at_return']} places={place_names(out['places'], 'new')}")
        return
    S.check("exactly-one-execution-per-enqueue", len(out["ran_at_return"]) == 1, info=str(out["ran_at_return"]))
    if older == 0:
        S.check("that-job-was-processed", out["ran_at_return"] == [7], info=str(out["ran_at_return"]))
        S.check("processed-job-gone", place_names(out["places"], "new") == [])


HARNESSES = [
    Harness(
        name="H10-limit", scenario=h10, workers=16, budget_s=900,
        params={"quick": {"max_m": 2, "extra_max": 2, "queues": 1, "dmax_us": 1500, "max_limit": 2},
                "thorough": {"max_m": 2, "extra_max": 2, "queues": 1, "dmax_us": 3000, "max_limit": 3}},
        bounds={"messages_limit M": "[1, 2]", "backlog": "M+1 .. M+2 pre-enqueued", "tasks_limit": "[1, 2] quick / [1, 3] thorough (symbolic)",
                "actor durations": "each any real in (0, 1.5 ms] quick / (0, 3 ms] thorough"},
        functions=["_runner.py:_Runner._run_consumer", "_runner.py:_Runner._task_callback", "_runner.py:_Runner.run_one_queue"],
        covers=["run-returned"],
    ),
    Harness(
        name="H10-zero-duration", scenario=h10, workers=8,
        params={"quick": {"zero": True, "max_limit": 3}, "thorough": {"zero": True, "max_limit": 3, "max_m": 3}},
        bounds={"actor durations": "zero (actor returns without awaiting)", "M": "[1, 2] / [1, 3]", "tasks_limit": "[1, 3]"},
        covers=["run-returned"],
    ),
    Harness(
        name="H10-two-queues", scenario=h10, workers=16, budget_s=900,
        params={"quick": {"max_m": 3, "extra_max": 1, "queues": 2, "dmax_us": 1000, "max_limit": 2},
                "thorough": {"max_m": 3, "extra_max": 3, "queues": 2, "dmax_us": 2000, "max_limit": 2}},
        bounds={"queues": "2", "M": "[1, 3]", "backlog": "M+1 (quick) / up to M+3", "tasks_limit": "[1, 2] (also below M)", "durations": "(0, 1 ms] / (0, 2 ms] incl. actors finishing at the same instant"},
        covers=["run-returned"],
    ),
    Harness(
        name="H10-redis", scenario=h10, workers=16, budget_s=900,
        params={"quick": {"max_m": 2, "extra_max": 3, "queues": 1, "dmax_us": 250000, "max_limit": 2, "backend": "redis"},
                "thorough": {"max_m": 3, "extra_max": 3, "queues": 1, "dmax_us": 250000, "max_limit": 2, "backend": "redis"}},
        bounds={"broker": "real Redis broker/consumer (prefetch buffer) on the fake server", "M": "[1,2] quick / [1,3] thorough", "backlog": "M+1..M+3",
                "durations": "(0, 250 ms]", "tasks_limit": "[1, 2]"},
        functions=["connections/redis/consumer.py:_RedisConsumer.finish"], covers=["run-returned"], stubs=["fake Redis server"]),
    Harness(
        name="H10-redis-short-actors", scenario=h10, workers=16, budget_s=900,
        params={"quick": {"max_m": 1, "extra_max": 3, "queues": 1, "dmin_us": 100000, "dmax_us": 112000, "max_limit": 3, "backend": "redis", "latency_us": 1000},
                "thorough": {"max_m": 2, "extra_max": 3, "queues": 1, "dmin_us": 100000, "dmax_us": 112000, "max_limit": 3, "backend": "redis", "latency_us": 1000}},
        bounds={"broker": "Redis on the fake server, every round trip takes 1 ms", "M": "1 / [1, 2]", "backlog": "M+1..M+3", "tasks_limit": "[1, 3]",
                "durations": "(100 ms, 112 ms]: the consumer polls the empty HIGH-priority lists for 100 ms, then fetches the next message with four 1 ms "
                             "round trips - the limit's stop lands before, between and after any of them"},
        functions=["connections/redis/consumer.py:_RedisConsumer.backgroud_consume", "_runner.py:_Runner.run_one_queue"], covers=["run-returned"],
        stubs=["fake Redis server"]),
    Harness(
        name="H10-rabbit-two-queues", scenario=h10, workers=16, budget_s=900,
        params={"quick": {"max_m": 2, "extra_max": 1, "queues": 2, "dmax_us": 50000, "max_limit": 2, "backend": "rabbit"},
                "thorough": {"max_m": 3, "extra_max": 2, "queues": 2, "dmax_us": 50000, "max_limit": 2, "backend": "rabbit"}},
        bounds={"broker": "real RabbitMQ broker/consumer on the fake channel", "queues": "2", "M": "[1, 2] quick / [1, 3] thorough", "durations": "(0, 50 ms]", "tasks_limit": "[1, 2]"},
        functions=["connections/rabbitmq/consumer.py:_RabbitConsumer.finish", "connections/rabbitmq/message_broker.py:RabbitMessageBroker.reject"],
        covers=["run-returned"], stubs=["fake AMQP server"]),
    Harness(
        name="H10-idle-queue", scenario=h10, workers=8,
        params={"quick": {"max_m": 2, "extra_max": 1, "queues": 1, "dmax_us": 1000, "max_limit": 2, "idle_queue": True},
                "thorough": {"max_m": 2, "extra_max": 2, "queues": 2, "dmax_us": 1000, "max_limit": 2, "idle_queue": True}},
        bounds={"queues": "1 (quick) / 2 with a backlog, plus one the worker serves that is empty during the run", "M": "[1, 2]", "durations": "(0, 1 ms]",
                "afterwards": "a job for the idle queue is enqueued once run() has returned; observed 1.5 s later"},
        functions=["_runner.py:_Runner.run_one_queue", "middlewares/wrapper.py:_middleware_wrapper.__call__", "connections/in_memory/consumer.py:_InMemoryConsumer.consume"],
        covers=["run-returned", "late-arrival"]),
    Harness(
        name="H10-redis-two-queues", scenario=h10, workers=16, budget_s=900,
        params={"quick": {"min_m": 4, "max_m": 1, "extra_min": 2, "extra_max": 1, "queues": 2, "dmin_us": 400000, "dmax_us": 408000, "max_limit": 2, "backend": "redis", "latency_us": 5000},
                "thorough": {"min_m": 3, "max_m": 2, "extra_min": 2, "extra_max": 2, "queues": 2, "dmin_us": 400000, "dmax_us": 412000, "max_limit": 2, "backend": "redis", "latency_us": 5000}},
        bounds={"broker": "Redis on the fake server, every round trip takes 5 ms", "queues": "2", "M": "4 quick / [3, 4] thorough", "backlog": "M+2 (quick) / M+2..M+3",
                "tasks_limit": "[1, 2]", "durations": "(400 ms, 408 ms] / (400 ms, 412 ms]: long enough for each consumer to prefetch two messages ahead, so that a loop "
                                                      "takes a buffered message while the other queue's loop starts the M-th execution"},
        functions=["connections/redis/consumer.py:_RedisConsumer.consume", "_runner.py:_Runner.run_one_queue"], covers=["run-returned"], stubs=["fake Redis server"]),
    Harness(
        name="H10-rabbit-staggered-arrival", scenario=h10, workers=16, budget_s=900,
        params={"quick": {"max_m": 1, "extra_max": 1, "queues": 2, "zero": True, "max_limit": 2, "backend": "rabbit", "stagger": 16},
                "thorough": {"max_m": 2, "extra_max": 2, "queues": 2, "zero": True, "max_limit": 2, "backend": "rabbit", "stagger": 30}},
        bounds={"broker": "RabbitMQ on the fake channel", "queues": "2", "M": "1 quick / [1, 2] thorough", "tasks_limit": "[1, 2]",
                "arrival": "the second queue's messages are published 0..15 (quick) / 0..29 (thorough) loop steps after the worker started, so that one "
                           "reaches its consumer just as the first queue's loop starts the M-th execution"},
        functions=["connections/rabbitmq/consumer.py:_RabbitConsumer.consume", "_runner.py:_Runner.run_one_queue"], covers=["run-returned"], stubs=["fake AMQP server"]),
    Harness(
        name="H10-plugin", scenario=h10_plugin, workers=4,
        bounds={"older messages in the queue": "[0, 1]", "actor duration": "[0, 2 ms]"},
        functions=["testing/modifiers.py:RunWorkerOnEnqueueModifier.wrapper"],
        covers=["plugin-ran"],
    ),
]
ASSUMPTIONS = ["virtual time; in-memory broker; async actors only"]

from engine.harness import borrowed  # noqa: E402
HARNESSES.append(borrowed("c14", "H14-mem", "H10-two-consumers"))                # a finishing consumer (a worker that reached its limit) returns only what it holds itself
