"""C05 - delayed messages are never delivered early and never forgotten."""
import asyncio
from fractions import Fraction

from engine import vtime
from engine.harness import Harness
from engine.symx import SNum, all_of, any_of, implies, neg
from engine.vtime import PinnedClock, real_timedelta
from harness.common import SEC, T0, Y2000, Y2050, Y2100, World, mem_places, place_names, run_async, try_consume, us_of

MS = 1000


def _params(S, T_us, ts_us=None, ttl_us=None):
    import repid.data._parameters as P
    return P.Parameters(delay=P.DelayProperties(next_execution_time=S.datetime_us(T_us)),
                        timestamp=S.datetime_us(ts_us if ts_us is not None else T0),
                        ttl=S.timedelta_us(ttl_us) if ttl_us is not None else None)


# ----------------------------------------------------------------------------------------
# in-memory: real polling consumer on the virtual loop


def h05_mem(S, steady_load=False):
    from repid.data._key import RoutingKey
    from repid.message import MessageCategory

    delta = S.real("due_after_enqueue_s", -2, 3)          # T = enqueue instant + delta
    phase = S.real("listen_start_s", 0, Fraction(11, 10))  # consumer starts listening this long after the enqueue
    far_first = (not steady_load) and S.flag("a_message_due_in_an_hour_was_scheduled_first")
    out = {}

    async def main(loop):
        w = World()
        await w.open(record=False)
        T_us = T0 + delta * SEC
        key = RoutingKey(topic="job", queue="default", id_="d1")
        if far_first:
            # a message due in an hour was scheduled before ours and keeps waiting
            await w.broker.enqueue(RoutingKey(topic="job", queue="default", id_="far"), "p", _params(S, T0 + 3600 * SEC))
        await w.broker.enqueue(key, "p", _params(S, T_us))
        pl = w.places()
        S.check("enqueued-into-delayed-category", place_names(pl, "d1") == ["delayed"])
        # visible through the delayed category at any time before it is due
        await asyncio.sleep(phase)
        cons = w.broker.get_consumer("default", ["job"])
        await cons.start()
        t_listen = loop.time()
        delivered_at = None
        order = []
        if steady_load:
            # ordinary jobs keep arriving so that the ready queue is never empty
            for n in range(12):
                await w.broker.enqueue(RoutingKey(topic="job", queue="default", id_=f"o{n}"), "p", None)
                got = await asyncio.wait_for(cons.consume(), timeout=6)
                order.append(got[0].id_)
                await w.broker.ack(got[0])
                if got[0].id_ == "d1":
                    delivered_at = loop.time()
                    break
                await asyncio.sleep(Fraction(1, 2))
        else:
            try:
                got = await asyncio.wait_for(cons.consume(), timeout=8)
                delivered_at = loop.time()
                order.append(got[0].id_)
            except asyncio.TimeoutError:
                pass
        out.update(t_listen=t_listen, delivered_at=delivered_at, order=order)

    run_async(main)
    T = delta                       # seconds on the loop clock (enqueue happened at loop time 0)
    d = out["delivered_at"]
    S.check("never-forgotten", d is not None, info=str(out))
    if d is None:
        return
    S.cover("delivered")
    S.check("never-delivered-before-due", d >= T, info=f"delivered at {d}")
    due_or_listen = T if (T >= out["t_listen"]) else out["t_listen"]
    bound = Fraction(11, 10) if not steady_load else Fraction(11, 10) + Fraction(1, 2)
    S.check("delivered-within-bounded-latency", d <= due_or_listen + bound,
            info=f"delivered at {d}, due/listen at {due_or_listen}, order {out['order']}")


# ----------------------------------------------------------------------------------------
# Redis: real broker + consumer on the fake server, symbolic microsecond instants


def h05_redis(S, via="enqueue"):
    from fakes import redis as fr
    from repid.data._key import RoutingKey
    from repid.message import MessageCategory

    T = S.int("due_us", Y2000, Y2050)
    now = S.int("consume_at_us", Y2000, Y2050)
    enq = S.int("enqueue_at_us", Y2000, Y2050)
    S.assume(enq <= now)
    # the machine's UTC offset (quarter hours): due times are local wall-clock datetimes, Redis scores and the consumer's bound are unix seconds
    zone = S.int("utc_offset_quarter_hours", -48, 56) * (900 * SEC)
    clock = PinnedClock(enq)
    out = {}
    S.tag("via", via)
    twin = via == "enqueue" and S.flag("two_messages_due_at_the_same_instant")
    # the message may carry a time-to-live that runs out before it is due: it is still only visible through the delayed category
    ttl = S.int("ttl_us", SEC, 10 * 366 * 86400 * SEC) if (via == "enqueue" and not twin and S.flag("has_ttl")) else None

    async def main(loop):
        srv = fr.FakeServer(clock=lambda: clock.time())
        br = fr.mk_broker(srv)
        key = RoutingKey(topic="job", queue="default", id_="d1")
        params = _params(S, T, ts_us=enq, ttl_us=ttl)
        if via == "enqueue":
            await br.enqueue(key, "p", params)
            if twin:
                # a second message due at the very same instant
                await br.enqueue(RoutingKey(topic="job", queue="default", id_="d2"), "p", _params(S, T, ts_us=enq))
        else:
            # a held message is requeued (retry back-off) or rejected with a due time
            import repid.data._parameters as P
            await br.enqueue(key, "p", P.Parameters(timestamp=S.datetime_us(enq)))
            c0 = br.get_consumer("default", ["job"])
            c0.POLLING_WAIT = 0
            got = await c0.consume_or_none()
            assert got is not None
            if via == "requeue":
                await br.requeue(key, "p", params)
            else:
                # reject re-reads the stored parameters: store the delayed ones first
                await br.conn.hset(fr_mnc(key), mapping={"parameters": params.encode()})
                await br.reject(key)
        out["places_before"] = fr.redis_places(srv)
        clock.set(now)
        cons = br.get_consumer("default", ["job"])
        cons.POLLING_WAIT = 0
        out["got"] = await cons.consume_or_none()
        out["places_after"] = fr.redis_places(srv)
        if twin and out["got"] is not None:
            out["got_twin"] = await cons.consume_or_none()
        dcons = br.get_consumer("default", ["job"], None, MessageCategory.DELAYED)
        dcons.POLLING_WAIT = 0
        out["got_delayed"] = await dcons.consume_or_none()

    def fr_mnc(key):
        from repid.connections.redis.utils import mnc
        return mnc(key)

    with vtime.local_zone(zone):
        run_async(main, clock=clock)
    S.check("stored-in-delayed-category", place_names(out["places_before"], "d1") == ["delayed"],
            info=str(place_names(out["places_before"], "d1")))
    if ttl is not None and now > enq + ttl and now >= T:
        # due and expired at once: the normal consumer dead-letters it (C12's business); nothing to say here
        S.cover("due-and-expired")
        return
    if out["got"] is not None:
        S.cover("delivered")
        S.check("never-delivered-before-due", now >= T - MS, info="delivered to a normal consumer before its due time")
        if twin:
            S.check("every-due-message-is-delivered", out.get("got_twin") is not None,
                    info="two messages were due; the consumer's next look returned nothing")
        else:
            S.check("held-once", place_names(out["places_after"], "d1") == ["processing"])
    else:
        S.cover("held-back")
        S.check("not-forgotten-once-due", now < T + SEC, info="due for more than a second and still not delivered")
        S.check("visible-through-delayed-category", out["got_delayed"] is not None and out["got_delayed"][0].id_ == "d1")


# ----------------------------------------------------------------------------------------
# RabbitMQ: what the client publishes (server-side expiry is the stub)


def h05_rabbit(S, via="enqueue"):
    from fakes import amqp as fa
    from repid.data._key import RoutingKey

    T = S.int("due_us", Y2000, Y2100)
    now = S.int("publish_at_us", Y2000, Y2100)
    clock = PinnedClock(now)
    out = {}
    S.tag("via", via)

    async def main(loop):
        br, ch, srv = fa.mk_broker()
        await br.queue_declare("default")
        key = RoutingKey(topic="job", queue="default", id_="d1")
        if via == "requeue":
            br._id_to_delivery_tag["d1"] = 1
            await br.requeue(key, "p", _params(S, T, ts_us=now))
        else:
            await br.enqueue(key, "p", _params(S, T, ts_us=now))
        out["pub"] = srv.published[-1]
        out["log"] = list(ch.log)

    run_async(main, clock=clock)
    pub = out["pub"]
    exp = pub["properties"].expiration
    if exp is None:
        S.cover("published-immediately")
        S.check("immediate-only-when-due", T - now < MS, info="published to the normal queue although due later")
        S.check("routed-to-normal-queue", pub["routing_key"] == "default")
    else:
        S.cover("published-delayed")
        ms = fa._expiration_value(exp)
        S.check("routed-to-delayed-queue", pub["routing_key"] == "default:delayed")
        S.check("expiration-positive", ms > 0)
        S.check("never-expires-before-due", now + ms * MS > T - MS, info="per-message TTL shorter than the remaining delay")
        S.check("expires-no-later-than-due", now + ms * MS <= T, info="per-message TTL longer than the remaining delay")
    S.check("message-id-carried", pub["properties"].message_id == "d1")


def h05_job(S):
    """Job(deferred_until, deferred_by).enqueue(): the first run is not handed over before deferred_until."""
    from repid import Job

    e = S.int("enqueue_at_us", Y2000, Y2050)
    T = S.int("deferred_until_us", Y2000, Y2050)
    has_by = S.flag("has_deferred_by")
    p = S.int("deferred_by_us", SEC, 40 * 86400 * SEC) if has_by else None
    now = S.int("consume_at_us", Y2000, Y2050)
    S.assume(T > e)
    S.assume(now >= e)
    inspected = S.flag("inspected_through_the_delayed_category_and_handed_back")
    clock = PinnedClock(e)
    out = {}

    async def main(loop):
        w = World()
        await w.open(record=False)
        await Job("job", id_="d1", deferred_until=S.datetime_us(T), deferred_by=S.timedelta_us(p) if has_by else None,
                  _connection=w.conn).enqueue()
        if inspected:
            # somebody looks at the delayed category (Queue.get_messages(category=DELAYED)) and hands the message back
            from repid.message import MessageCategory
            dc = w.broker.get_consumer("default", ["job"], None, MessageCategory.DELAYED)
            await dc.start()
            seen = await try_consume(dc)
            if seen is not None:
                await w.broker.reject(seen[0])
        clock.set(now)
        cons = w.broker.get_consumer("default", ["job"])
        await cons.start()
        out["got"] = await try_consume(cons)

    run_async(main, clock=clock)
    if out["got"] is not None:
        S.cover("delivered")
        S.check("first-run-not-before-deferred_until", now >= T, info="handed to a normal consumer before deferred_until")
    else:
        S.cover("held-back")
        S.check("not-forgotten-once-due", now <= T, info="deferred_until passed and the job was not delivered")


def h05_redis_same_id(S):
    """A job id that is still waiting is submitted again with a due time: whatever a normal consumer is handed under that id
    does not carry a next execution time that is still ahead."""
    import repid.data._parameters as P
    from fakes import redis as fr
    from repid.data._key import RoutingKey

    e = S.int("first_enqueue_at_us", Y2000, Y2050)
    T = S.int("second_submission_due_us", Y2000, Y2050)
    now = S.int("consume_at_us", Y2000, Y2050)
    S.assume(e <= now)
    S.assume(T > e)
    clock = PinnedClock(e)
    out = {}

    async def main(loop):
        srv = fr.FakeServer(clock=lambda: clock.time())
        br = fr.mk_broker(srv)
        key = RoutingKey(topic="job", queue="default", id_="u1")
        await br.enqueue(key, "first", P.Parameters(timestamp=S.datetime_us(e)))
        await br.enqueue(key, "second", _params(S, T, ts_us=e))
        clock.set(now)
        cons = br.get_consumer("default", ["job"])
        cons.POLLING_WAIT = 0
        out["got"] = [await cons.consume_or_none(), await cons.consume_or_none()]

    run_async(main, clock=clock)
    for i, got in enumerate(out["got"]):
        if got is None:
            continue
        S.cover("delivered")
        d = got[2].delay
        due = None if d is None else (d.next_execution_time or d.delay_until)
        S.check("handed-message-is-not-scheduled-for-later", due is None or now >= us_of(due) - MS,
                info=f"delivery {i} ({got[1]!r}) carries a next execution time that is still ahead")
    S.check("first-submission-is-delivered", out["got"][0] is not None)


HARNESSES = [
    Harness(
        name="H05-mem", scenario=h05_mem, workers=8,
        bounds={"due time": "enqueue instant + any real in [-2 s, 3 s]", "consumer starts listening": "any real in [0, 1.1 s] after the enqueue",
                "polling": "the consumer's 1 ms polling and ~1 s delayed rescans run concretely on the virtual clock"},
        functions=["connections/in_memory/message_broker.py:InMemoryMessageBroker.enqueue", "connections/in_memory/consumer.py:_InMemoryConsumer.consume",
                   "connections/in_memory/utils.py:wait_until"],
        covers=["delivered"],
    ),
    Harness(
        name="H05-mem-steady-load", scenario=h05_mem, workers=8, params={"quick": {"steady_load": True}, "thorough": {"steady_load": True}},
        bounds={"as H05-mem": "plus an ordinary job enqueued before every consume call (ready queue never empty), consumes 0.5 s apart"},
        covers=["delivered"],
    ),
    Harness(
        name="H05-redis-enqueue", scenario=h05_redis, workers=4, params={"quick": {"via": "enqueue"}, "thorough": {"via": "enqueue"}},
        bounds={"due time, enqueue instant, consume instant": "any microsecond in 2000..2050 (every position inside a clock second)"},
        functions=["connections/redis/utils.py:wait_timestamp", "connections/redis/message_broker.py:RedisMessageBroker.enqueue",
                   "connections/redis/consumer.py:_RedisConsumer.consume_or_none"],
        covers=["delivered", "held-back"],
        stubs=["fake Redis server (fakes/redis.py), commands take zero time; random priority order pinned to MEDIUM-first"],
    ),
    Harness(
        name="H05-redis-requeue", scenario=h05_redis, workers=4, params={"quick": {"via": "requeue"}, "thorough": {"via": "requeue"}},
        bounds={"as H05-redis-enqueue": "the due time arrives through requeue (retry back-off / reschedule)"},
        functions=["connections/redis/message_broker.py:RedisMessageBroker.requeue"],
        covers=["delivered", "held-back"],
    ),
    Harness(
        name="H05-redis-reject", scenario=h05_redis, workers=4, params={"quick": {"via": "reject"}, "thorough": {"via": "reject"}},
        bounds={"as H05-redis-enqueue": "a delayed message is rejected back"},
        functions=["connections/redis/message_broker.py:RedisMessageBroker.reject"],
        covers=["delivered", "held-back"],
    ),
    Harness(
        name="H05-job-deferred", scenario=h05_job, workers=4,
        bounds={"enqueue instant, deferred_until (> enqueue), consume instant": "any µs in 2000..2050", "deferred_by": "absent or any µs in [1 s, 40 d]"},
        functions=["job.py:Job.enqueue", "data/_parameters.py:Parameters.compute_next_execution_time"], covers=["delivered", "held-back"]),
    Harness(
        name="H05-rabbit-publish", scenario=h05_rabbit, params={"quick": {"via": "enqueue"}, "thorough": {"via": "enqueue"}},
        bounds={"due time, publish instant": "any microsecond in 2000..2100 (delays from negative to 100 years)"},
        functions=["connections/rabbitmq/message_broker.py:RabbitMessageBroker.enqueue", "connections/rabbitmq/utils.py:wait_until"],
        covers=["published-immediately", "published-delayed"],
        outside=["RabbitMQ's own expiry/dead-letter timing (server)"],
        stubs=["fake AMQP channel records basic_publish; int(float_seconds*1000) modelled as exact truncation"],
    ),
    Harness(
        name="H05-rabbit-requeue", scenario=h05_rabbit, params={"quick": {"via": "requeue"}, "thorough": {"via": "requeue"}},
        bounds={"as H05-rabbit-publish": "through requeue (ack + publish)"},
        functions=["connections/rabbitmq/message_broker.py:RabbitMessageBroker.requeue"],
        covers=["published-delayed"],
    ),
]
from harness.c04 import h04_step  # noqa: E402

HARNESSES.append(
    Harness(name="H05-retry-step", scenario=h04_step, workers=8,
            bounds={"as H04-step": "one failed attempt from an arbitrary retry state (any back-off incl. zero, recurring or not): the retry is due exactly "
                                   "at failure + back-off, is held back only until then and delivered from then on"},
            functions=["data/_parameters.py:Parameters._prepare_retry", "connections/in_memory/utils.py:wait_until"],
            covers=["retry", "retry-delivered", "retry-held-back"],
            stubs=["state constructed directly (see H04-step)"]))
ASSUMPTIONS = ["'at millisecond resolution' is read as a 1 ms tolerance on 'not before T'",
               "Redis/RabbitMQ servers are stubs (fakes/redis.py, fakes/amqp.py)"]
HARNESSES.append(Harness(
    name="H05-redis-same-id", scenario=h05_redis_same_id, workers=4,
    bounds={"history": "enqueue(id, immediate) then enqueue(same id, due at T) before the first was consumed, then two consume calls", "instants": "any µs in 2000..2050"},
    outside=["the opposite order (due first, immediate second): both submissions share one data hash, the first one's wins - see DESIGN 4.4"],
    functions=["connections/redis/message_broker.py:RedisMessageBroker.enqueue", "connections/redis/consumer.py:_RedisConsumer.consume_or_none"],
    covers=["delivered"], stubs=["fake Redis server"]))
