"""C01 - broker operations never lose or duplicate a message."""
from engine.harness import Harness
from harness.history import run_history


def h01_mem(S, steps=3, pre=1):
    run_history(S, "mem", steps=steps, pre=pre)


def h01_redis(S, steps=3, pre=1):
    run_history(S, "redis", steps=steps, pre=pre)


def h01_rabbit(S, steps=3, pre=1):
    run_history(S, "rabbit", steps=steps, pre=pre)


def h01_cancel(S, backend="mem", steps=3, pre=1):
    run_history(S, backend, steps=steps, pre=pre, cancel_last=True,
                ops_allowed=("enqueue-delayed", "consume", "ack", "nack", "reject", "requeue", "requeue-delayed", "advance"))


def h01_revive(S, backend="redis", steps=6):
    """Longer histories over the calls that move one message between categories (dead-letter, revive, hand back)."""
    run_history(S, backend, steps=steps, pre=1, ops_allowed=("consume", "nack", "reject", "requeue"))


_B = {"operations": "enqueue (immediate / due in 2 s), consume through each category, ack, nack, reject, requeue (immediate / delayed), clock advance 3 s, consumer finish",
      "clients": "well-behaved: terminal actions only on held messages, fresh ids", "queues/topics": "one queue, one topic, equal priority"}

HARNESSES = [
    Harness(name="H01-mem-hist", scenario=h01_mem, workers=16, budget_s=900,
            params={"quick": {"steps": 4, "pre": 1}, "thorough": {"steps": 5, "pre": 1}},
            bounds={**_B, "history length": "4 quick / 5 thorough operations after 1 pre-enqueued message"},
            functions=["connections/in_memory/message_broker.py:InMemoryMessageBroker.reject", "connections/in_memory/consumer.py:_InMemoryConsumer.consume"],
            covers=["delivered-NORMAL", "delivered-DELAYED", "requeue", "reject-NORMAL"]),
    Harness(name="H01-redis-hist", scenario=h01_redis, workers=16, budget_s=900,
            params={"quick": {"steps": 4, "pre": 1}, "thorough": {"steps": 5, "pre": 1}},
            bounds={**_B, "history length": "4 quick / 5 thorough"},
            functions=["connections/redis/message_broker.py:RedisMessageBroker.reject", "connections/redis/consumer.py:_RedisConsumer.consume_or_none"],
            covers=["delivered-NORMAL", "delivered-DELAYED", "requeue", "reject-NORMAL"],
            stubs=["fake Redis server (fakes/redis.py); commands atomic, zero latency"]),
    Harness(name="H01-rabbit-hist", scenario=h01_rabbit, workers=16, budget_s=900,
            params={"quick": {"steps": 4, "pre": 1}, "thorough": {"steps": 5, "pre": 1}},
            bounds={**_B, "history length": "4 quick / 5 thorough"},
            functions=["connections/rabbitmq/message_broker.py:RabbitMessageBroker.reject", "connections/rabbitmq/consumer.py:_RabbitConsumer.on_new_message"],
            covers=["delivered-NORMAL", "requeue", "reject-NORMAL"],
            stubs=["fake AMQP server (fakes/amqp.py): routing, DLX as declared by repid, expiry exactly at TTL; priorities not modelled"],
            outside=["RabbitMQ server semantics beyond the stub"]),
]
for _be in ("mem", "redis", "rabbit"):
    HARNESSES.append(Harness(
        name=f"H01-{_be}-revive", scenario=h01_revive, workers=16, budget_s=900,
        params={"quick": {"backend": _be, "steps": 5 if _be == "rabbit" else 6}, "thorough": {"backend": _be, "steps": 7}},
        bounds={"history": "6 (quick; RabbitMQ 5) / 7 (thorough) calls from {consume through each category, nack, reject, requeue} on one pre-enqueued message: "
                           "covers dead-letter -> read through DEAD -> requeue (revive) -> consume -> hand back"},
        covers=["requeue", "reject-NORMAL", "delivered-DEAD"],
        stubs=[] if _be == "mem" else [f"fake {_be} server"]))
for _be in ("mem", "redis", "rabbit"):
    HARNESSES.append(Harness(
        name=f"H01-{_be}-cancel", scenario=h01_cancel, workers=16, budget_s=900,
        params={"quick": {"backend": _be, "steps": 3, "pre": 1}, "thorough": {"backend": _be, "steps": 4, "pre": 1}},
        bounds={"history": "2 (quick) / 3 (thorough) complete operations, then one operation whose task is cancelled after j in [0, 8] event-loop steps",
                "cancelled operation": "enqueue, consume, ack, nack, reject, requeue"},
        covers=["cancelled-mid-call"],
        stubs=[] if _be == "mem" else [f"fake {_be} server"]))

ASSUMPTIONS = ["operation selectors are discrete: the solver enumerates the well-behaved histories inside the bound"]
