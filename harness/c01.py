"""C01 - broker operations never lose or duplicate a message."""
from engine.harness import Harness
from harness.history import run_history


def h01_mem(S, steps=3, pre=1):
    run_history(S, "mem", steps=steps, pre=pre)


def h01_redis(S, steps=3, pre=1):
    run_history(S, "redis", steps=steps, pre=pre)


def h01_rabbit(S, steps=3, pre=1):
    run_history(S, "rabbit", steps=steps, pre=pre)


def h01_cancel(S, backend="mem", steps=3, pre=1):
    run_history(S, backend, steps=steps, pre=pre, cancel_last=True,
                ops_allowed=("enqueue-delayed", "consume", "ack", "nack", "reject", "requeue", "requeue-delayed", "advance"))


def h01_revive(S, backend="redis", steps=6):
    """Longer histories over the calls that move one message between categories (dead-letter, revive, hand back)."""
    run_history(S, backend, steps=steps, pre=1, ops_allowed=("consume", "nack", "reject", "requeue"))


def h01_redis_finish(S):
    """Redis consumer with its background prefetch: start, let it work for a while, maybe take one message, finish."""
    import asyncio
    from fractions import Fraction
    from fakes import redis as fr
    from repid.data._key import RoutingKey
    import repid.data._parameters as P
    from harness.common import run_async, place_names

    buffer_size = S.pick("max_unacked_messages", 2) + 1
    backlog = S.pick("backlog", 3) + 2
    take_one = S.flag("caller_takes_one_message")
    t = S.real("finish_after_s", 0, Fraction(30, 1000))
    out = {}

    async def main(loop):
        srv = fr.FakeServer()
        srv.latency = lambda client: Fraction(1, 1000)          # every round trip takes 1 ms
        br = fr.mk_broker(srv)
        for i in range(backlog):
            await br.enqueue(RoutingKey(topic="job", queue="default", id_=f"m{i}"), "p", P.Parameters(timestamp=P.datetime.now()))
        cons = br.get_consumer("default", ["job"], buffer_size)
        cons.POLLING_WAIT = Fraction(1, 1000)
        await cons.start()
        held = None
        if take_one:
            held = (await asyncio.wait_for(cons.consume(), timeout=5))[0].id_
        await asyncio.sleep(t)
        await cons.finish()
        await asyncio.sleep(Fraction(1, 2))
        out["held"] = held
        out["places"] = {i: sorted(p[0] for p in v) for i, v in fr.redis_places(srv).items()}

    run_async(main)
    S.cover("finished")
    for i in range(backlog):
        mid = f"m{i}"
        want = ["processing"] if mid == out["held"] else ["waiting"]
        S.check("every-message-in-exactly-its-place", out["places"].get(mid, []) == want,
                info=f"after finish(): {mid} is in {out['places'].get(mid, [])}, expected {want} (buffer {buffer_size}, backlog {backlog})")


_B = {"operations": "enqueue (immediate / due in 2 s), consume through each category, ack, nack, reject, requeue (immediate / delayed), clock advance 3 s, consumer finish",
      "clients": "well-behaved: terminal actions only on held messages, fresh ids", "queues/topics": "one queue, one topic, equal priority"}


def h01_mem_requeue_error(S):
    """requeue() with parameters whose next execution time cannot be worked out raises - and replaces nothing: the held message is
    still held (atomic replacement, also on the error path)."""
    import datetime as dt
    import repid.data._parameters as P
    from repid.data._key import RoutingKey
    from harness.common import World, mem_places, place_names, run_async, try_consume

    kind = ["aware-delay_until", "zero-period", "cron-without-croniter"][S.pick("parameters", 3)]
    S.tag("parameters", kind)
    out = {}

    async def main(loop):
        w = World()
        await w.open(record=False)
        key = RoutingKey(topic="job", queue="default", id_="m1")
        await w.broker.enqueue(key, "old", P.Parameters(timestamp=P.datetime.now()))
        cons = w.broker.get_consumer("default", ["job"])
        await cons.start()
        got = await try_consume(cons)
        assert got is not None
        bad = {"aware-delay_until": P.DelayProperties(delay_until=dt.datetime(2030, 1, 1, tzinfo=dt.timezone.utc)),
               "zero-period": P.DelayProperties(defer_by=dt.timedelta(0)),
               "cron-without-croniter": P.DelayProperties(cron="* * * * *")}[kind]
        try:
            await w.broker.requeue(key, "new", P.Parameters(timestamp=P.datetime.now(), delay=bad))
            out["raised"] = None
        except Exception as e:  # noqa: BLE001
            out["raised"] = type(e).__name__
        out["places"] = place_names(mem_places(w.broker), "m1")
        out["payloads"] = [p[1].payload for p in mem_places(w.broker).get("m1", [])]

    run_async(main)
    S.cover("requeue-error-path")
    if out["raised"] is None:
        S.check("requeued-once", len(out["places"]) == 1 and out["payloads"] == ["new"], info=str(out))
    else:
        S.check("failed-requeue-replaces-nothing", out["places"] == ["processing"] and out["payloads"] == ["old"],
                info=f"requeue raised {out['raised']}; the message is now in {out['places']} with payloads {out['payloads']}")


HARNESSES = [
    Harness(name="H01-mem-hist", scenario=h01_mem, workers=16, budget_s=900,
            params={"quick": {"steps": 4, "pre": 1}, "thorough": {"steps": 5, "pre": 1}},
            bounds={**_B, "history length": "4 quick / 5 thorough operations after 1 pre-enqueued message"},
            functions=["connections/in_memory/message_broker.py:InMemoryMessageBroker.reject", "connections/in_memory/consumer.py:_InMemoryConsumer.consume"],
            covers=["delivered-NORMAL", "delivered-DELAYED", "requeue", "reject-NORMAL"]),
    Harness(name="H01-redis-hist", scenario=h01_redis, workers=16, budget_s=900,
            params={"quick": {"steps": 4, "pre": 1}, "thorough": {"steps": 5, "pre": 1}},
            bounds={**_B, "history length": "4 quick / 5 thorough"},
            functions=["connections/redis/message_broker.py:RedisMessageBroker.reject", "connections/redis/consumer.py:_RedisConsumer.consume_or_none"],
            covers=["delivered-NORMAL", "delivered-DELAYED", "requeue", "reject-NORMAL"],
            stubs=["fake Redis server (fakes/redis.py); commands atomic, zero latency"]),
    Harness(name="H01-rabbit-hist", scenario=h01_rabbit, workers=16, budget_s=900,
            params={"quick": {"steps": 4, "pre": 1}, "thorough": {"steps": 5, "pre": 1}},
            bounds={**_B, "history length": "4 quick / 5 thorough"},
            functions=["connections/rabbitmq/message_broker.py:RabbitMessageBroker.reject", "connections/rabbitmq/consumer.py:_RabbitConsumer.on_new_message"],
            covers=["delivered-NORMAL", "requeue", "reject-NORMAL"],
            stubs=["fake AMQP server (fakes/amqp.py): routing, DLX as declared by repid, expiry exactly at TTL; priorities not modelled"],
            outside=["RabbitMQ server semantics beyond the stub"]),
]
HARNESSES.append(Harness(
    name="H01-redis-finish", scenario=h01_redis_finish, workers=8,
    bounds={"consumer": "Redis consumer with background prefetch, buffer of 1 or 2, backlog 2..4, 1 ms round trips", "caller": "takes one message or none",
            "finish()": "after any real time in [0, 30 ms]"},
    functions=["connections/redis/consumer.py:_RedisConsumer.finish", "connections/redis/consumer.py:_RedisConsumer.backgroud_consume"],
    covers=["finished"], stubs=["fake Redis server with 1 ms latency"]))
for _be in ("mem", "redis", "rabbit"):
    HARNESSES.append(Harness(
        name=f"H01-{_be}-revive", scenario=h01_revive, workers=16, budget_s=900,
        params={"quick": {"backend": _be, "steps": 5 if _be == "rabbit" else 6}, "thorough": {"backend": _be, "steps": 7}},
        bounds={"history": "6 (quick; RabbitMQ 5) / 7 (thorough) calls from {consume through each category, nack, reject, requeue} on one pre-enqueued message: "
                           "covers dead-letter -> read through DEAD -> requeue (revive) -> consume -> hand back"},
        covers=["requeue", "reject-NORMAL", "delivered-DEAD"],
        stubs=[] if _be == "mem" else [f"fake {_be} server"]))
for _be in ("mem", "redis", "rabbit"):
    HARNESSES.append(Harness(
        name=f"H01-{_be}-cancel", scenario=h01_cancel, workers=16, budget_s=900,
        params={"quick": {"backend": _be, "steps": 3, "pre": 1}, "thorough": {"backend": _be, "steps": 4, "pre": 1}},
        bounds={"history": "2 (quick) / 3 (thorough) complete operations, then one operation whose task is cancelled after j in [0, 8] event-loop steps",
                "cancelled operation": "enqueue, consume, ack, nack, reject, requeue"},
        covers=["cancelled-mid-call"],
        stubs=[] if _be == "mem" else [f"fake {_be} server"]))

ASSUMPTIONS = ["operation selectors are discrete: the solver enumerates the well-behaved histories inside the bound"]

HARNESSES.append(Harness(
    name="H01-mem-requeue-error", scenario=h01_mem_requeue_error,
    bounds={"requeue parameters": "a time-zone-aware delay_until, a zero period, a cron expression without croniter installed"},
    functions=["connections/in_memory/message_broker.py:InMemoryMessageBroker.requeue"], covers=["requeue-error-path"]))
# scenarios of other properties that also decide a clause of this one ("dead-lettered ... in exactly one place"; a message the
# runner took is handed back or settled, never left with a consumer that is gone)
from engine.harness import borrowed  # noqa: E402
HARNESSES.append(borrowed("c12", "H12-consume-rabbit", "H01-rabbit-expired"))
HARNESSES.append(borrowed("c12", "H12-consume-redis", "H01-redis-expired"))
HARNESSES.append(borrowed("c03", "H03-rabbit-stop", "H01-rabbit-worker-stop"))
HARNESSES.append(borrowed("c03", "H03-redis-twin-priorities", "H01-redis-twin-priorities"))   # HIGH/LOW priority messages taken and handed back around a stop
