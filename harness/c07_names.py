"""C07 (names): every name the validators accept survives the brokers' key encodings unambiguously (strx + cvc5)."""
from types import SimpleNamespace

from engine.strx import Interp, SBool, SInt, SStr, re_to_smt, sterm, iterm, lit


def _eq(a, b):
    if isinstance(a, (SInt, int)) and not isinstance(a, bool) and isinstance(b, (SInt, int)):
        return f"(= {iterm(a)} {iterm(b)})"
    return f"(= {sterm(a)} {sterm(b)})"


def _key(P, suffix, NAME, ID):
    return SimpleNamespace(queue=P.input_str("queue" + suffix, NAME), topic=P.input_str("topic" + suffix, NAME),
                           id_=P.input_str("id" + suffix, ID), priority=P.input_int("priority" + suffix, 0))


def names_redis(P):
    import repid.connections.redis.utils as RU
    from repid._utils import regex_validators as RV
    NAME = re_to_smt(RV.VALID_NAME.pattern)
    ID = re_to_smt(RV.VALID_ID.pattern)
    P.notes["VALID_NAME"] = RV.VALID_NAME.pattern
    P.notes["VALID_ID"] = RV.VALID_ID.pattern
    k = _key(P, "", NAME, ID)
    I = Interp(P)
    full = I.call(RU.mnc, k)
    short = I.call(RU.mnc, k, short=True)
    try:
        id_, topic, queue, prio = I.call(RU.parse_message_name, full)
        P.cover("parsed-full")
        P.check("parse_message_name-id", _eq(id_, k.id_))
        P.check("parse_message_name-topic", _eq(topic, k.topic))
        P.check("parse_message_name-queue", _eq(queue, k.queue))
        P.check("parse_message_name-priority", _eq(prio, k.priority))
    except ValueError as e:
        P.check("parse_message_name-accepts-every-constructed-name", False, info=str(e))
    try:
        t2, i2 = I.call(RU.parse_short_message_name, short)
        P.cover("parsed-short")
        P.check("parse_short-topic", _eq(t2, k.topic))
        P.check("parse_short-id", _eq(i2, k.id_))
    except ValueError as e:
        P.check("parse_short_message_name-accepts-every-constructed-name", False, info=str(e))
    for flags, marker in (({}, "n"), ({"delayed": True}, "d"), ({"dead": True}, "dead"), ({"delayed": True, "dead": True}, "dead")):
        qn = I.call(RU.qnc, k.queue, k.priority, **flags)
        try:
            got = I.call(RU.get_queue_marker, qn)
            P.check("queue-marker-" + marker, _eq(got, marker))
            back = I.call(RU.full_message_name_from_short, short, qn)
            P.check("full-name-from-short-" + marker, _eq(back, full))
        except ValueError as e:
            P.check("queue-name-splits-into-four-" + marker, False, info=str(e))
    P.cover("queue-names")
    P.notes["functions"] = sorted(set(I.functions))


def names_injective(P):
    import repid.connections.redis.utils as RU
    import repid.connections.rabbitmq.utils as MU
    from repid._utils import regex_validators as RV
    NAME = re_to_smt(RV.VALID_NAME.pattern)
    ID = re_to_smt(RV.VALID_ID.pattern)
    a = _key(P, "_a", NAME, ID)
    b = _key(P, "_b", NAME, ID)
    I = Interp(P)
    same = "(and %s %s %s %s)" % (_eq(a.queue, b.queue), _eq(a.topic, b.topic), _eq(a.id_, b.id_), _eq(a.priority, b.priority))
    P.check("mnc-injective", f"(=> {_eq(I.call(RU.mnc, a), I.call(RU.mnc, b))} {same})")
    P.check("short-mnc-injective", "(=> %s (and %s %s))" % (_eq(I.call(RU.mnc, a, short=True), I.call(RU.mnc, b, short=True)),
                                                            _eq(a.topic, b.topic), _eq(a.id_, b.id_)))
    kinds = [{}, {"delayed": True}, {"dead": True}]
    names_a = [I.call(RU.qnc, a.queue, a.priority, **f) for f in kinds]
    names_b = [I.call(RU.qnc, b.queue, b.priority, **f) for f in kinds]
    for x in range(3):
        for y in range(3):
            same_q = "(and %s %s)" % (_eq(a.queue, b.queue), _eq(a.priority, b.priority))
            P.check("redis-queue-names-distinct", f"(=> {_eq(names_a[x], names_b[y])} (and {same_q} {'true' if x == y else 'false'}))",
                    info=f"kinds {kinds[x]} vs {kinds[y]}")
    # a message name is never a queue name and vice versa
    P.check("message-and-queue-keys-disjoint", f"(not {_eq(I.call(RU.mnc, a), names_b[0])})")
    # the consumer's topic filter: short.startswith(topic + ":") <=> same topic
    short = I.call(RU.mnc, a, short=True)
    pref = I.concat([b.topic, ":"])
    P.check("topic-prefix-filter-exact", f"(= (str.prefixof {sterm(pref)} {sterm(short)}) {_eq(a.topic, b.topic)})")
    # RabbitMQ queue names
    ra = [I.call(MU.qnc, a.queue, **f) for f in kinds]
    rb = [I.call(MU.qnc, b.queue, **f) for f in kinds]
    for x in range(3):
        for y in range(3):
            P.check("rabbit-queue-names-distinct", f"(=> {_eq(ra[x], rb[y])} (and {_eq(a.queue, b.queue)} {'true' if x == y else 'false'}))",
                    info=f"kinds {kinds[x]} vs {kinds[y]}")
    P.cover("injectivity")
    P.notes["functions"] = sorted(set(I.functions))


def marker(P):
    """_ArgsBucketInMessageId: check(construct(id)) for all ids; check(p) false outside the reserved family."""
    from repid._utils import regex_validators as RV
    from repid._utils.args_bucket_in_message_id import _ArgsBucketInMessageId as M
    ID = re_to_smt(RV.VALID_ID.pattern)
    I = Interp(P)
    P.declare("which_half", "Bool")
    which = P.decide(SBool("which_half"))
    if which:
        # construct() goes through the C JSON encoder: run it on a placeholder id and splice the symbolic id in
        # (assumption: JSON text of a str over [a-zA-Z0-9_-] is that str between quotes - no escapes needed)
        token = "IDTOKENx0"
        text = M.construct(token)
        pre, post = text.split(token)
        i = P.input_str("id", ID)
        constructed = I.concat([pre, i, post])
        P.cover("constructed")
        P.check("check-accepts-every-constructed-reference", I.truth_term(I.call(M.check, constructed)))
        P.notes["construct"] = pre + "<id>" + post
    else:
        # payloads are serializer outputs: a sub-language of compact JSON texts (scalars, flat/once-nested
        # lists, flat dicts; printable ASCII strings without quote/backslash)
        CH = '(re.union (re.range " " "!") (re.range "#" "[") (re.range "]" "~"))'
        STRING = f'(re.++ (str.to_re "\\u{{22}}") (re.* {CH}) (str.to_re "\\u{{22}}"))'
        NUM = '(re.++ (re.opt (str.to_re "-")) (re.union (str.to_re "0") (re.++ (re.range "1" "9") (re.* (re.range "0" "9")))))'
        V0 = f'(re.union {STRING} {NUM} (str.to_re "true") (str.to_re "false") (str.to_re "null"))'
        L0 = f'(re.++ (str.to_re "[") (re.opt (re.++ {V0} (re.* (re.++ (str.to_re ",") {V0})))) (str.to_re "]"))'
        V1 = f'(re.union {V0} {L0})'
        L1 = f'(re.++ (str.to_re "[") (re.opt (re.++ {V1} (re.* (re.++ (str.to_re ",") {V1})))) (str.to_re "]"))'
        PAIR = f'(re.++ {STRING} (str.to_re ":") {V1})'
        D = f'(re.++ (str.to_re "{{") (re.opt (re.++ {PAIR} (re.* (re.++ (str.to_re ",") {PAIR})))) (str.to_re "}}"))'
        p = P.input_str("payload", f"(re.union {V1} {L1} {D})", maxlen=40)
        reserved = M.construct("x").split("x")[0][:-2]      # '{"__repid_payload_id'
        P.assume(f"(not (str.prefixof {lit(reserved)} {p.t}))")
        P.cover("foreign-payload")
        r = I.call(M.check, p)
        P.check("payload-outside-the-reserved-family-is-not-a-reference", f"(not {I.truth_term(r)})",
                info="check() accepts a payload that does not start with " + reserved)
    P.notes["functions"] = sorted(set(I.functions))


# ---------------------------------------------------------------------------------------
# concrete replays against the real functions


def _ns(m, sfx=""):
    return SimpleNamespace(queue=m.get("queue" + sfx, "q"), topic=m.get("topic" + sfx, "t"), id_=m.get("id" + sfx, "i"),
                           priority=m.get("priority" + sfx, 0))


def replay_names_redis(label, m):
    import repid.connections.redis.utils as RU
    k = _ns(m)
    failed = []

    def bad(lbl, info=None):
        failed.append({"label": lbl, "info": info})

    try:
        id_, topic, queue, prio = RU.parse_message_name(RU.mnc(k))
        for lbl, a, b in (("parse_message_name-id", id_, k.id_), ("parse_message_name-topic", topic, k.topic),
                          ("parse_message_name-queue", queue, k.queue), ("parse_message_name-priority", prio, k.priority)):
            if a != b:
                bad(lbl, f"{a!r} != {b!r}")
    except ValueError as e:
        bad("parse_message_name-accepts-every-constructed-name", str(e))
    try:
        t2, i2 = RU.parse_short_message_name(RU.mnc(k, short=True))
        if t2 != k.topic:
            bad("parse_short-topic")
        if i2 != k.id_:
            bad("parse_short-id")
    except ValueError as e:
        bad("parse_short_message_name-accepts-every-constructed-name", str(e))
    for flags, marker_ in (({}, "n"), ({"delayed": True}, "d"), ({"dead": True}, "dead"), ({"delayed": True, "dead": True}, "dead")):
        qn = RU.qnc(k.queue, k.priority, **flags)
        try:
            if RU.get_queue_marker(qn) != marker_:
                bad("queue-marker-" + marker_)
            if RU.full_message_name_from_short(RU.mnc(k, short=True), qn) != RU.mnc(k):
                bad("full-name-from-short-" + marker_)
        except ValueError as e:
            bad("queue-name-splits-into-four-" + marker_, str(e))
    return failed


def replay_names_injective(label, m):
    import repid.connections.redis.utils as RU
    import repid.connections.rabbitmq.utils as MU
    a, b = _ns(m, "_a"), _ns(m, "_b")
    failed = []
    same = (a.queue, a.topic, a.id_, a.priority) == (b.queue, b.topic, b.id_, b.priority)
    if RU.mnc(a) == RU.mnc(b) and not same:
        failed.append({"label": "mnc-injective", "info": RU.mnc(a)})
    if RU.mnc(a, short=True) == RU.mnc(b, short=True) and (a.topic, a.id_) != (b.topic, b.id_):
        failed.append({"label": "short-mnc-injective", "info": RU.mnc(a, short=True)})
    kinds = [{}, {"delayed": True}, {"dead": True}]
    for x in range(3):
        for y in range(3):
            if RU.qnc(a.queue, a.priority, **kinds[x]) == RU.qnc(b.queue, b.priority, **kinds[y]) and not (
                    (a.queue, a.priority) == (b.queue, b.priority) and x == y):
                failed.append({"label": "redis-queue-names-distinct", "info": RU.qnc(a.queue, a.priority, **kinds[x])})
            if MU.qnc(a.queue, **kinds[x]) == MU.qnc(b.queue, **kinds[y]) and not (a.queue == b.queue and x == y):
                failed.append({"label": "rabbit-queue-names-distinct", "info": MU.qnc(a.queue, **kinds[x])})
    if RU.mnc(a) == RU.qnc(b.queue, b.priority):
        failed.append({"label": "message-and-queue-keys-disjoint", "info": RU.mnc(a)})
    if RU.mnc(a, short=True).startswith(b.topic + ":") != (a.topic == b.topic):
        failed.append({"label": "topic-prefix-filter-exact", "info": f"{RU.mnc(a, short=True)!r} vs prefix {b.topic + ':'!r}"})
    return failed


def replay_marker(label, m):
    import json
    from repid._utils.args_bucket_in_message_id import _ArgsBucketInMessageId as M
    from repid.config import Config
    failed = []
    if "id" in m and label.startswith("check-accepts"):
        if not M.check(M.construct(m["id"])):
            failed.append({"label": "check-accepts-every-constructed-reference", "info": M.construct(m["id"])})
        if M.deconstruct(M.construct(m["id"])) != m["id"]:
            failed.append({"label": "deconstruct-inverts-construct", "info": m["id"]})
    if "payload" in m:
        value = json.loads(m["payload"])
        text = Config.SERIALIZER(value)
        reserved = M.construct("x").split("x")[0][:-2]
        if M.check(text) and not text.startswith(reserved):
            failed.append({"label": "payload-outside-the-reserved-family-is-not-a-reference",
                           "info": f"args={value!r} serialise to {text!r}, which check() takes for a bucket reference"})
    return failed
