"""C14 - a message is held by at most one consumer at a time."""
import asyncio
from fractions import Fraction

from engine.harness import Harness
from engine.vtime import real_timedelta
from harness.common import World, mem_places, place_names, run_async, try_consume


def h14_mem(S, steps=4, n_msgs=2, backend="mem"):
    """Two NORMAL consumers on one queue (in-memory, or two Redis connections to one server, one call after the other):
    consume / finish / ack / reject histories."""
    from repid import Connection, InMemoryMessageBroker
    from repid.data._key import RoutingKey
    import repid.data._parameters as P

    holder = {}          # id -> consumer name currently holding it
    finished_since = {}  # id -> consumers that finished while it was held
    trace = []

    async def main(loop):
        if backend == "redis":
            from fakes import redis as fr
            srv = fr.FakeServer()
            brokers = {"A": fr.mk_broker(srv, "A"), "B": fr.mk_broker(srv, "B")}
            broker = brokers["A"]
        else:
            broker = InMemoryMessageBroker()
            brokers = {"A": broker, "B": broker}
            conn = Connection(broker)
            await conn.connect()
            await broker.queue_declare("default")
        for i in range(n_msgs):
            await broker.enqueue(RoutingKey(topic="job", queue="default", id_=f"m{i}"), "p", P.Parameters(timestamp=P.datetime.now()))
        cons = {w: brokers[w].get_consumer("default", ["job"]) for w in ("A", "B")}
        for c in cons.values():
            if backend == "redis":
                c.POLLING_WAIT = 0
            else:
                await c.start()
        for step in range(steps):
            menu = [("consume", "A"), ("consume", "B")] + ([("finish", "A"), ("finish", "B")] if backend == "mem" else [])
            for mid, who in holder.items():
                menu += [("ack", mid), ("reject", mid)]
            op, arg = menu[S.pick(f"op{step}", len(menu))]
            trace.append((op, arg))
            S.tag("last_op", op)
            if op == "consume":
                got = await (cons[arg].consume_or_none() if backend == "redis" else try_consume(cons[arg]))
                if got is not None:
                    mid = got[0].id_
                    S.cover("delivered")
                    if mid in holder:
                        others = [c for c in finished_since.get(mid, []) if c != holder[mid]]
                        S.tag("redelivered_after", "finish-of-another-consumer" if others else "no-finish-of-another-consumer")
                    S.check("delivered-only-if-nobody-holds-it", mid not in holder,
                            info=f"{trace}: {mid} delivered to {arg} while held by {holder.get(mid)}")
                    if mid in holder:
                        return
                    holder[mid] = arg
                    finished_since[mid] = []
            elif op == "finish":
                await cons[arg].finish()
                await cons[arg].start()
                for mid in holder:
                    finished_since.setdefault(mid, []).append(arg)
                for mid in [m for m, w in holder.items() if w == arg]:
                    del holder[mid]          # returned by its holder's shutdown
                S.cover("finish")
            elif op == "ack":
                await brokers[holder[arg]].ack(RoutingKey(topic="job", queue="default", id_=arg))
                del holder[arg]
            elif op == "reject":
                await brokers[holder[arg]].reject(RoutingKey(topic="job", queue="default", id_=arg))
                del holder[arg]
                S.cover("reject")

    run_async(main)


def h14_consumer_failure(S):
    """Worker A's consumer fails (connection lost) while one of A's actors is still running a message of that queue; worker B serves
    the same queue: the running message is not delivered to B while A works on it."""
    from repid import Job, Router, Worker
    from repid.converter import BasicConverter

    # (concrete instants: a symbolic one would be compared with every 1 ms poll of two idle consumers)
    t_fail = [Fraction(1, 20), Fraction(1, 5), Fraction(2, 5)][S.pick("consumer_fails_after", 3)]
    log = []
    out = {}

    async def main(loop):
        w = World()
        await w.open(record=False)
        base = w.broker.CONSUMER_CLASS
        t0 = loop.time()

        class Flaky(base):
            owner = None

            async def consume(self):
                if self.owner == "A" and self.delivered:
                    delay = t0 + t_fail - loop.time()
                    if delay > 0:
                        await asyncio.sleep(delay)
                    raise RuntimeError("consumer connection lost")
                m = await super().consume()
                self.delivered = True
                return m

        Flaky.delivered = False

        def router(name):
            r = Router()

            @r.actor(name="job", converter=BasicConverter)
            async def job(i: int):
                log.append((name, "start", i, loop.time()))
                await asyncio.sleep(Fraction(1, 2))
                log.append((name, "end", i, loop.time()))
            return r

        await Job("job", args={"i": 1}, id_="m1", _connection=w.conn).enqueue()
        orig_get = w.broker.get_consumer
        made = []

        def get_consumer(*a, **k):
            w.broker.CONSUMER_CLASS = Flaky
            c = orig_get(*a, **k)
            c.owner = "A" if not made else "B"
            c.delivered = False
            made.append(c)
            return c

        w.broker.get_consumer = get_consumer
        wa = Worker(routers=[router("A")], handle_signals=[], _connection=w.conn, graceful_shutdown_time=2.0, tasks_limit=2)
        ta = asyncio.create_task(wa.run())
        await asyncio.sleep(Fraction(5, 1000))
        wb = Worker(routers=[router("B")], handle_signals=[], _connection=w.conn, graceful_shutdown_time=2.0, tasks_limit=2, messages_limit=1)
        tb = asyncio.create_task(wb.run())
        await asyncio.sleep(Fraction(3, 2))
        for t in (ta, tb):
            t.cancel()
        await asyncio.gather(ta, tb, return_exceptions=True)

    run_async(main)
    S.cover("consumer-failed-mid-run")
    starts = [(n, t) for n, ev, i, t in log if ev == "start"]
    ends = {n: t for n, ev, i, t in log if ev == "end"}
    overlap = [n for n, t in starts if any(m != n and t2 <= t and ends.get(m, 10**9) > t for m, t2 in starts)]
    S.check("delivered-only-if-nobody-holds-it", not overlap, info=f"executions of m1: {log}")
    S.check("successful-job-executed-once", len(starts) == 1, info=f"{log}")


def h14_requeue_cancel(S, backend="mem"):
    """The holder's requeue is cancelled after j loop steps and followed by a reject (what the runner does on a
    forced stop); afterwards two consumers must never hold the same id at once."""
    from repid import Connection, InMemoryMessageBroker
    from repid.data._key import RoutingKey
    import repid.data._parameters as P

    j = S.pick("cancel_after_steps", 8)
    delayed = S.flag("requeue_with_delay")
    out = {}

    async def main(loop):
        broker = InMemoryMessageBroker()
        conn = Connection(broker)
        await conn.connect()
        await broker.queue_declare("default")
        key = RoutingKey(topic="job", queue="default", id_="m0")
        await broker.enqueue(key, "p", P.Parameters(timestamp=P.datetime.now()))
        A, B = broker.get_consumer("default", ["job"]), broker.get_consumer("default", ["job"])
        await A.start()
        await B.start()
        got = await try_consume(A)
        assert got is not None
        newp = P.Parameters(timestamp=P.datetime.now(), retries=P.RetriesProperties(max_amount=3, already_tried=1),
                            delay=P.DelayProperties(next_execution_time=P.datetime.now() - real_timedelta(seconds=1)) if delayed else P.DelayProperties())
        t = asyncio.ensure_future(broker.requeue(key, "p2", newp))
        for _ in range(j):
            if t.done():
                break
            await asyncio.sleep(0)
        t.cancel()
        try:
            await t
        except asyncio.CancelledError:
            pass
        await broker.reject(key)
        ga = await try_consume(A)
        gb = await try_consume(B)
        out["held"] = [g[0].id_ for g in (ga, gb) if g is not None]

    run_async(main)
    S.cover("requeue-cancelled")
    S.check("one-id-never-held-by-two-consumers", out["held"].count("m0") <= 1,
            info=f"requeue cancelled after {j} steps then rejected: both consumers hold m0")
    S.check("message-not-lost", out["held"].count("m0") >= 1, info="message vanished")


def h14_redis(S, n_msgs=1, n_consumers=2, timeout_path=False):
    """Concurrent consume_or_none() of several Redis consumers: every interleaving of their round trips."""
    from fakes import redis as fr
    from repid.data._key import RoutingKey
    import repid.data._parameters as P

    out = {}
    picks = []

    def chooser(n):
        v = S.pick(f"sched{len(picks)}", n)
        picks.append(v)
        return v

    async def main(loop):
        srv = fr.FakeServer(mode="immediate")
        brokers = [fr.mk_broker(srv, name=f"c{i}") for i in range(n_consumers)]
        for i in range(n_msgs):
            await brokers[0].enqueue(RoutingKey(topic="job", queue="default", id_=f"m{i}"), "p", P.Parameters(timestamp=P.datetime.now()))
        consumers = [b.get_consumer("default", ["job"]) for b in brokers]
        for c in consumers:
            c.POLLING_WAIT = 0
        srv.mode = "choose"
        srv.chooser = chooser
        srv.attach(loop)
        res = await asyncio.gather(*[c.consume_or_none() for c in consumers])
        srv.mode = "immediate"
        out["res"] = [None if r is None else r[0].id_ for r in res]
        # shape of the schedule: did every client read the queue before the first take was applied?
        log = srv.log
        first_take = next((n for n, (c, cmds) in enumerate(log) if any(x[0] in ("lrem", "zrem") for x in cmds)), None)
        readers = {c for c, cmds in log[:first_take or 0] if any(x[0] in ("lrange", "zrange") and "q:default:5:n" in str(x[1]) for x in cmds)}
        out["all_read_before_first_take"] = len(readers) == n_consumers
        out["places"] = fr.redis_places(srv)

    run_async(main)
    got = [r for r in out["res"] if r is not None]
    S.cover("raced")
    S.note("schedule", picks)
    S.tag("all_clients_read_before_first_take", out["all_read_before_first_take"])
    S.check("no-message-delivered-to-two-consumers", len(got) == len(set(got)),
            info=f"schedule {picks}: deliveries {out['res']}")
    S.check("every-waiting-message-delivered-or-still-waiting",
            all(place_names(out["places"], f"m{i}") in (["processing"], ["waiting"]) for i in range(n_msgs)),
            info=str({f"m{i}": place_names(out["places"], f"m{i}") for i in range(n_msgs)}))


def h14_workers(S, n_msgs=2):
    """Two workers on one in-memory queue, successful actor: every job runs exactly once."""
    from repid import Job, Router, Worker
    from repid.converter import BasicConverter

    d = [S.real(f"d{i}", 0, Fraction(2, 1000), lo_strict=True) for i in range(n_msgs)]
    start_b = S.real("second_worker_starts_after", 0, Fraction(2, 1000))
    runs = []

    async def main(loop):
        w = World()
        await w.open(record=False)
        r = Router()

        @r.actor(converter=BasicConverter)
        async def job(i: int):
            runs.append(i)
            await asyncio.sleep(d[i])

        for i in range(n_msgs):
            await Job("job", args={"i": i}, id_=f"m{i}", _connection=w.conn).enqueue()
        wa = Worker(routers=[r], handle_signals=[], _connection=w.conn, graceful_shutdown_time=1.0, messages_limit=n_msgs, tasks_limit=1)
        wb = Worker(routers=[r], handle_signals=[], _connection=w.conn, graceful_shutdown_time=1.0, messages_limit=n_msgs, tasks_limit=1)

        async def late():
            await asyncio.sleep(start_b)
            await wb.run()

        ta = asyncio.create_task(wa.run())
        tb = asyncio.create_task(late())
        await asyncio.sleep(Fraction(1, 20))
        for t in (ta, tb):
            t.cancel()
        await asyncio.gather(ta, tb, return_exceptions=True)

    run_async(main)
    S.cover("workers-ran")
    S.check("each-successful-job-executed-exactly-once", sorted(runs) == list(range(n_msgs)), info=str(runs))


def h14_handover(S):
    """Worker A stops at its message limit while its job may outlive the graceful period; worker B takes over afterwards."""
    from repid import Job, Router, Worker
    from repid.converter import BasicConverter

    d = S.real("job_duration", 0, Fraction(4, 1000), lo_strict=True)
    g = S.real("graceful_period", 0, Fraction(4, 1000))
    active = {"n": 0}
    entered, completed = [], []
    out = {}

    async def main(loop):
        w = World()
        await w.open(record=False)
        r = Router()

        @r.actor(converter=BasicConverter)
        async def job(i: int):
            active["n"] += 1
            entered.append(i)
            S.check("one-holder-at-a-time", active["n"] <= 1, info=f"the job is being executed {active['n']} times at once")
            try:
                await asyncio.sleep(d)
                completed.append(i)
            finally:
                active["n"] -= 1

        await Job("job", args={"i": 0}, id_="m0", _connection=w.conn).enqueue()
        wa = Worker(routers=[r], handle_signals=[], _connection=w.conn, graceful_shutdown_time=g, messages_limit=1, tasks_limit=1)
        await asyncio.wait_for(wa.run(), timeout=5)
        out["a_completed"] = list(completed)
        out["after_a"] = place_names(w.places(), "m0")
        wb = Worker(routers=[r], handle_signals=[], _connection=w.conn, graceful_shutdown_time=1.0, messages_limit=1, tasks_limit=1)
        try:
            await asyncio.wait_for(wb.run(), timeout=Fraction(1, 10))
        except asyncio.TimeoutError:
            pass
        await asyncio.sleep(Fraction(1, 50))
        out["places"] = w.places()

    run_async(main)
    # a forced cancellation may interrupt the first worker anywhere, also while it reports a finished run: then the message is
    # handed back (C03) and runs again; what must never happen is a second execution of a message the first worker disposed of,
    # or two executions at once
    S.check("first-worker-leaves-the-message-disposed-or-waiting", out["after_a"] in ([], ["waiting"]), info=str(out["after_a"]))
    if out["after_a"] == []:
        S.cover("completed-by-the-first-worker")
        S.check("each-successful-job-executed-exactly-once", entered == [0] and completed == [0], info=f"entered={entered} completed={completed}")
    else:
        S.cover("handed-over")
        S.check("handed-over-job-runs-once-more", entered == [0, 0] and completed[-1:] == [0], info=f"entered={entered} completed={completed}")
    S.check("nothing-left-behind", place_names(out["places"], "m0") == [], info=str(place_names(out["places"], "m0")))


def h14_store_failure(S):
    """A failing, slow result store after the retry was already requeued: the requeued copy belongs to whoever took it."""
    from repid import Job, Router, Worker
    from repid.converter import BasicConverter

    lat = S.real("result_store_latency", 0, Fraction(6, 1000))
    d = Fraction(2, 1000)
    active = {"n": 0}
    runs = []
    stores = []

    async def main(loop):
        w = World(results=True)
        await w.open(record=False)
        orig_store = w.rb.store_bucket

        async def store(id_, payload):
            stores.append(payload.success)
            await asyncio.sleep(lat)
            if len(stores) == 1:
                raise ConnectionError("result storage is down")
            return await orig_store(id_, payload)

        w.rb.store_bucket = store
        r = Router()

        @r.actor(converter=BasicConverter, retry_policy=lambda retry_number=1: real_timedelta(0))
        async def job(i: int):
            active["n"] += 1
            runs.append(len(runs))
            S.check("one-holder-at-a-time", active["n"] <= 1, info=f"the message is being executed {active['n']} times at once")
            try:
                await asyncio.sleep(d)
                if len(runs) == 1:
                    raise ValueError("first attempt fails")
            finally:
                active["n"] -= 1

        await Job("job", args={"i": 0}, id_="m0", retries=1, store_result=True, result_id="r0", _connection=w.conn).enqueue()
        workers = [Worker(routers=[r], handle_signals=[], _connection=w.conn, graceful_shutdown_time=1.0, tasks_limit=1) for _ in range(2)]
        cls = w.broker.CONSUMER_CLASS
        saved = cls.UPDATE_DELAYED_EVERY
        cls.UPDATE_DELAYED_EVERY = 0.004      # the retried copy (due now) is looked for every 4 ms instead of every second
        try:
            tasks = [asyncio.create_task(x.run()) for x in workers]
            await asyncio.sleep(Fraction(1, 20))
            for t in tasks:
                t.cancel()
            await asyncio.gather(*tasks, return_exceptions=True)
        finally:
            cls.UPDATE_DELAYED_EVERY = saved

    run_async(main)
    S.cover("store-failed-after-requeue")
    S.check("each-attempt-executed-exactly-once", len(runs) == 2, info=f"executions: {len(runs)} (one failing attempt and one retry expected)")


def h14_rabbit(S):
    """RabbitMQ client bookkeeping (delivery tags, local buffer): what one consumer holds is not handed to another."""
    from fakes import amqp as fa
    from repid.data._key import RoutingKey
    import repid.data._parameters as P

    scenario = ["finish-with-held-and-buffered", "reject-redelivered-then-acked"][S.pick("scenario", 2)]
    settle = [0, 3][S.pick("settle_returns_after_redelivery", 2)]
    S.tag("scenario", scenario)
    out = {}

    async def main(loop):
        br, ch, srv = fa.mk_broker()
        srv.settle_turns = settle
        await br.queue_declare("default")
        for i in (("w1", "w2") if scenario == "finish-with-held-and-buffered" else ("w1",)):
            await br.enqueue(RoutingKey(topic="job", queue="default", id_=i), "p", P.Parameters(timestamp=P.datetime.now()))
        a = br.get_consumer("default", ["job"])
        await a.start()
        first = await asyncio.wait_for(a.consume(), timeout=1)
        out["first"] = first[0].id_
        if scenario == "finish-with-held-and-buffered":
            # process A holds `first` (its actor is running) while another message sits in A's buffer; A's consumer finishes,
            # a second consumer of the same broker takes over
            await asyncio.sleep(Fraction(1, 100))
            b = br.get_consumer("default", ["job"])
            await a.finish()
            await b.start()
            got = []
            for _ in range(2):
                try:
                    got.append((await asyncio.wait_for(b.consume(), timeout=Fraction(1, 2)))[0].id_)
                except asyncio.TimeoutError:
                    break
            out["second_consumer_got"] = got
        else:
            # the holder hands the message back, gets it again, succeeds and acks; then the connection goes away
            await br.reject(first[0])
            again = await asyncio.wait_for(a.consume(), timeout=1)
            out["again"] = again[0].id_
            await br.ack(again[0])
            await asyncio.sleep(Fraction(1, 5))
            ch.close()
            await asyncio.sleep(Fraction(1, 100))
            out["ready_after_close"] = [m.props.message_id for m in srv.queues["default"].ready]

    run_async(main)
    S.cover(scenario)
    if scenario == "finish-with-held-and-buffered":
        S.check("held-message-not-delivered-to-another-consumer", out["first"] not in out["second_consumer_got"],
                info=f"{out['first']} is still held by its first consumer, the second consumer received {out['second_consumer_got']}")
    else:
        S.check("acknowledged-job-is-not-delivered-again", out["again"] not in out["ready_after_close"],
                info=f"{out['again']} ran and was acked, yet it is ready again after the connection closed: {out['ready_after_close']}")


def h14_after_forced_stop(S):
    """A worker is forced to stop while its job (with a retry left, zero back-off) runs; afterwards two consumers look at the queue."""
    from repid import Job, Router, Worker
    from repid.converter import BasicConverter

    g = S.real("graceful_period", 0, Fraction(4, 1000))
    unwind = [0, Fraction(3, 2)][S.pick("actor_unwinds_for_1500ms_when_cancelled", 2)]
    out = {}

    async def main(loop):
        w = World()
        await w.open(record=False)
        r = Router()

        @r.actor(converter=BasicConverter, retry_policy=lambda retry_number=1: real_timedelta(0))
        async def job(i: int):
            try:
                await asyncio.sleep(Fraction(50, 1000))
            except asyncio.CancelledError:
                if unwind:
                    await asyncio.sleep(unwind)
                raise

        await Job("job", args={"i": 0}, id_="m0", retries=1, _connection=w.conn).enqueue()
        wa = Worker(routers=[r], handle_signals=[], _connection=w.conn, graceful_shutdown_time=g, messages_limit=1, tasks_limit=1)
        await asyncio.wait_for(wa.run(), timeout=10)
        cls = w.broker.CONSUMER_CLASS
        saved = cls.UPDATE_DELAYED_EVERY
        cls.UPDATE_DELAYED_EVERY = 0.004
        try:
            b = w.broker.get_consumer("default", ["job"])
            c = w.broker.get_consumer("default", ["job"])
            await b.start()
            await c.start()
            got_b = await try_consume(b, timeout=Fraction(1, 20))
            # B keeps holding what it got while C looks (also after the first worker's actor has finally unwound)
            await asyncio.sleep(2)
            got_c = await try_consume(c, timeout=Fraction(1, 20))
        finally:
            cls.UPDATE_DELAYED_EVERY = saved
        out["b"] = None if got_b is None else got_b[0].id_
        out["c"] = None if got_c is None else got_c[0].id_

    run_async(main)
    S.cover("forced-stop-then-two-consumers")
    S.check("message-available-again-after-the-forced-stop", out["b"] == "m0", info=str(out))
    S.check("delivered-only-if-nobody-holds-it", out["c"] is None, info=f"consumer B holds {out['b']}, consumer C was handed {out['c']}")


HARNESSES = [
    Harness(name="H14-after-forced-stop", scenario=h14_after_forced_stop, workers=4,
            bounds={"job": "50 ms, one retry left, zero back-off; the worker's graceful period is any real in [0, 4 ms]", "actor": "unwinds at once or needs 1.5 s when cancelled",
                    "then": "consumer B takes the message and keeps it, consumer C looks 2 s later"},
            functions=["_runner.py:_Runner._process_with_event", "_processor.py:_Processor._actor_run", "connections/in_memory/consumer.py:_InMemoryConsumer.finish"],
            covers=["forced-stop-then-two-consumers"]),
    Harness(name="H14-rabbit", scenario=h14_rabbit,
            bounds={"scenarios": "a consumer finishing while it holds one message and buffers another, then a second consumer; "
                                 "reject -> redelivery -> ack -> connection closed", "settle calls": "return before or after the redelivery they cause"},
            functions=["connections/rabbitmq/consumer.py:_RabbitConsumer.finish", "connections/rabbitmq/message_broker.py:RabbitMessageBroker.reject",
                       "connections/rabbitmq/message_broker.py:RabbitMessageBroker.ack"],
            covers=["finish-with-held-and-buffered", "reject-redelivered-then-acked"],
            stubs=["fake AMQP server: nack/ack with multiple=True cover all lower tags; a closed channel requeues its unsettled deliveries"]),
    Harness(name="H14-store-failure", scenario=h14_store_failure, workers=8,
            bounds={"result store": "any real latency in [0, 6 ms], fails once after the retry was requeued", "attempt duration": "2 ms",
                    "workers": "2 on one in-memory queue, zero back-off, delayed rescan every 4 ms"},
            functions=["_processor.py:_Processor.process", "_runner.py:_Runner._process_with_event"], covers=["store-failed-after-requeue"]),
    Harness(name="H14-handover", scenario=h14_handover, workers=8,
            bounds={"job duration": "any real in (0, 4 ms]", "graceful period of the first worker": "any real in [0, 4 ms] (shorter, equal, longer than the job)",
                    "workers": "A stops at messages_limit=1; B starts on the same queue when A's run() has returned"},
            functions=["_runner.py:_Runner.finish_gracefully", "_runner.py:_Runner._process_with_event", "worker.py:Worker.run"],
            covers=["handed-over", "completed-by-the-first-worker"]),
    Harness(name="H14-mem", scenario=h14_mem, workers=16, budget_s=900,
            params={"quick": {"steps": 4, "n_msgs": 2}, "thorough": {"steps": 5, "n_msgs": 2}},
            bounds={"consumers": "2 on one in-memory queue", "messages": "2", "history": "4 quick / 5 thorough calls from {A.consume, B.consume, A.finish, B.finish, ack/reject by the holder}"},
            functions=["connections/in_memory/consumer.py:_InMemoryConsumer.finish", "connections/in_memory/consumer.py:_InMemoryConsumer.consume"],
            covers=["delivered", "finish", "reject"]),
    Harness(name="H14-consumer-failure", scenario=h14_consumer_failure, workers=4,
            bounds={"workers": "A and B on one in-memory queue; A runs a 0.5 s job", "A's consumer fails": "50, 200 or 400 ms into the job"},
            functions=["_runner.py:_Runner.run_one_queue", "connections/in_memory/consumer.py:_InMemoryConsumer.finish"], covers=["consumer-failed-mid-run"]),
    Harness(name="H14-redis-hist", scenario=h14_mem, workers=16, budget_s=900,
            params={"quick": {"steps": 4, "n_msgs": 3, "backend": "redis"}, "thorough": {"steps": 5, "n_msgs": 3, "backend": "redis"}},
            bounds={"two consumers": "two Redis connections to one server, their calls one after the other (no overlap: the overlapping take is H14-redis-race)",
                    "messages": "3 in one fetch window", "history": "4 (quick) / 5 (thorough) calls from {consume by either, ack, reject}"},
            functions=["connections/redis/consumer.py:_RedisConsumer.consume_or_none"], covers=["delivered"], stubs=["fake Redis server"]),
    Harness(name="H14-requeue-cancel", scenario=h14_requeue_cancel, workers=4,
            bounds={"requeue cancelled after": "0..7 loop steps, then reject by the holder (the runner's forced-stop sequence)", "requeue": "immediate or with a past due time"},
            functions=["connections/in_memory/message_broker.py:InMemoryMessageBroker.requeue"], covers=["requeue-cancelled"]),
    Harness(name="H14-redis-race", scenario=h14_redis, workers=16, budget_s=900,
            params={"quick": {"n_msgs": 1, "n_consumers": 2}, "thorough": {"n_msgs": 2, "n_consumers": 2}},
            bounds={"consumers": "2 RedisMessageBroker clients on one fake server, each calling consume_or_none() once, concurrently",
                    "interleavings": "every order in which the server can apply their pending round trips (solver-enumerated scheduler)", "messages": "1 quick / 2 thorough"},
            functions=["connections/redis/consumer.py:_RedisConsumer.consume_or_none"], covers=["raced"],
            stubs=["fake Redis server; MULTI/EXEC atomic; commands of different clients interleave at round-trip granularity"]),
    Harness(name="H14-workers", scenario=h14_workers, workers=16, budget_s=900,
            params={"quick": {"n_msgs": 2}, "thorough": {"n_msgs": 3}},
            bounds={"workers": "2 Worker.run() on one in-memory queue, second one starting after any real delay in [0, 2 ms]", "actor durations": "(0, 2 ms] each, symbolic"},
            functions=["worker.py:Worker.run"], covers=["workers-ran"]),
]
from harness.c03 import h03_redis_death  # noqa: E402

HARNESSES.append(
    Harness(name="H14-redis-timeout-redelivery", scenario=h03_redis_death, workers=16, budget_s=900,
            bounds={"holder": "a Redis consumer that took the message (or died at any of 0..7 round trips of the take)", "execution timeout": "any µs in [1 s, 3 d]",
                    "another process connects (maintenance) after": "any µs in [0, 4 d]"},
            functions=["connections/redis/message_broker.py:RedisMessageBroker.maintenance"], covers=["died-holding-the-message", "redelivered", "still-in-flight"],
            stubs=["fake Redis server"]))
ASSUMPTIONS = ["RabbitMQ exclusivity is the server's (not modelled)"]

from engine.harness import borrowed  # noqa: E402
HARNESSES.append(borrowed("c01", "H01-redis-finish", "H14-redis-finish"))   # a message handed back twice is listed twice and delivered to two holders
