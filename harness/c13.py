"""C13 - the stored result is the outcome of the latest execution."""
import asyncio
import json
from fractions import Fraction

from engine import vtime
from engine.harness import Harness
from engine.symx import all_of, any_of, implies, neg
from engine.vtime import PinnedClock, real_timedelta
from harness.common import SEC, T0, Y2000, Y2050, Recorder, World, mem_places, mk_actor, place_names, run_async, try_consume, us_of

HUNDRED_Y = 36525 * 86400 * 10**6   # 100 julian years in µs


def h13_chain(S, attempts=3):
    """A retry chain through the real _Processor.process: every attempt overwrites the bucket."""
    import repid.data._parameters as P
    from repid import Job
    from repid._processor import _Processor
    from repid.converter import BasicConverter

    enabled = S.flag("store_result")
    has_ttl = S.flag("has_result_ttl")
    rttl = S.int("result_ttl", SEC, HUNDRED_Y) if has_ttl else None
    fails = [S.bool(f"fail{i}") for i in range(attempts)]
    faults = [S.flag(f"store_fails{i}") for i in range(attempts)]
    # the first attempt may also "succeed" with a value the converter cannot encode: that counts as a failed execution
    unenc0 = S.flag("attempt0_returns_unencodable")
    no_text = S.flag("exceptions_carry_no_text")            # `raise ValueError()`: the recorded text is the empty string
    recurring = S.flag("recurring")                         # every completed iteration is rescheduled: the next run overwrites the bucket again
    HOUR = 3600 * SEC
    t0 = S.int("start", Y2000, Y2050)
    gaps = [S.int(f"gap{i}", 0, 3600 * SEC) for i in range(2 * attempts)]
    clock = PinnedClock(t0)
    out = {"snap": []}
    runs = []

    async def main(loop):
        w = World(results=True)
        await w.open(record=True)
        orig_store = w.rb.store_bucket
        stores = []

        async def store(id_, payload):
            stores.append(len(runs) - 1)
            if faults[len(runs) - 1]:
                raise ConnectionError("bucket broker unavailable")
            return await orig_store(id_, payload)

        w.rb.store_bucket = store

        async def fn():
            i = len(runs)
            runs.append(i)
            clock.advance(gaps[2 * i])           # the execution takes some time
            if unenc0 and i == 0:
                return {1, 2, 3}                 # a set is not JSON serialisable
            if fails[i]:
                raise ValueError() if no_text else ValueError(f"boom{i}")
            return {"attempt": i}

        actor = mk_actor(fn, converter=BasicConverter, retry_policy=lambda retry_number=1: real_timedelta(0))
        job = Job("job", retries=attempts - 1, store_result=enabled, result_id="res-1", deferred_by=real_timedelta(hours=1) if recurring else None,
                  result_ttl=S.timedelta_us(rttl) if has_ttl else None, id_="m1", _connection=w.conn)
        await job.enqueue()
        if recurring:
            clock.advance(HOUR + SEC)
        proc = _Processor(w.conn)
        cons = w.broker.get_consumer("default", ["job"])
        await cons.start()
        for i in range(attempts):
            got = await try_consume(cons)
            if got is None:
                break
            key, payload, params = got
            before_calls = len(w.rec.calls)
            started_at = clock.us
            err = None
            try:
                await proc.process(actor, key, payload, params)
            except Exception as e:  # noqa: BLE001
                err = e
            finished_at = clock.us
            bucket = await w.rb.get_bucket("res-1")
            out["snap"].append({"i": i, "err": err, "bucket": bucket, "job_result": await job.result,
                                "ops": [c["op"] for c in w.rec.calls[before_calls:] if c["id"] == "m1" and c["op"] != "enqueue"],
                                "places": place_names(w.places(), "m1"), "started_at": started_at, "finished_at": finished_at,
                                "stores": list(stores)})
            clock.advance(gaps[2 * i + 1] + 1 + (HOUR if recurring else 0))   # time passes before the retry (the next iteration) is delivered
        out["n"] = len(runs)

    run_async(main, clock=clock)
    last_written = None
    for s in out["snap"]:
        i = s["i"]
        S.cover("attempt-%d" % i)
        if recurring and i >= 1:
            S.cover("recurring-later-run")
        unenc = bool(unenc0) and i == 0
        failed = True if unenc else bool(fails[i])
        # disposition is what the ladder prescribes, whatever happened to the store
        # (the retry counter restarts after a rescheduled iteration, so on this chain a recurring job is requeued every time)
        want = "requeue" if (recurring or (failed and i < attempts - 1)) else ("nack" if failed else "ack")
        S.check("disposition-unaffected-by-result-store", s["ops"] == [want], info=f"attempt {i}: {s['ops']} expected {want}; store error {s['err']!r}")
        S.check("place-unaffected-by-result-store", s["places"] == {"requeue": ["delayed"], "nack": ["dead"], "ack": []}[want], info=str(s["places"]))
        if not enabled:
            S.check("nothing-written-when-disabled", s["bucket"] is None and s["job_result"] is None and s["stores"] == [])
            S.check("no-error-when-disabled", s["err"] is None, info=repr(s["err"]))
            continue
        if faults[i]:
            S.cover("store-failed")
            S.check("failed-store-leaves-previous-bucket", s["bucket"] is last_written or s["bucket"] == last_written)
            continue
        S.check("no-error", s["err"] is None, info=repr(s["err"]))
        b = s["bucket"]
        S.check("bucket-written", b is not None)
        if b is None:
            continue
        last_written = b
        S.check("job-result-returns-the-bucket", s["job_result"] == b or s["job_result"] is b)
        S.check("success-flag-of-this-attempt", b.success == (not failed), info=f"attempt {i}: success={b.success}")
        if unenc:
            S.cover("unencodable-return")
            S.check("unencodable-return-recorded-as-failure", b.exception == "TypeError", info=f"{b.data!r} {b.exception!r}")
        elif failed:
            S.check("exception-text-and-type", b.data == ("" if no_text else f"boom{i}") and b.exception == "ValueError", info=f"{b.data!r} {b.exception!r}")
        else:
            S.check("encoded-return-value", json.loads(b.data) == {"attempt": i} and b.exception is None, info=f"{b.data!r}")
        S.check("started-not-after-finished", b.started_when <= b.finished_when)
        S.check("times-are-this-attempts", all_of(b.started_when >= s["started_at"] * 1000, b.finished_when <= s["finished_at"] * 1000))
        S.check("bucket-ttl-as-configured", (b.ttl is None) if not has_ttl else (b.ttl is not None and us_of_td(b.ttl) == rttl))
        S.check("bucket-timestamp-is-store-time", us_of(b.timestamp) == s["finished_at"])
        if not recurring and (not failed or i == attempts - 1):
            break


def us_of_td(td):
    return vtime.td_us(td)


def h13_worker(S):
    """A failing result store never stops the worker: the next message is still processed and stored."""
    from repid import Job, Router, Worker
    from repid.converter import BasicConverter

    fail_first_store = S.flag("first_store_fails")
    first_fails = S.flag("first_actor_fails")
    second_later = S.flag("second_job_arrives_after_the_first_was_handled")
    out = {}
    runs = []

    async def main(loop):
        w = World(results=True)
        await w.open(record=True)
        orig_store = w.rb.store_bucket
        n = [0]

        async def store(id_, payload):
            n[0] += 1
            if id_ == "r1" and fail_first_store:
                raise ConnectionError("down")
            return await orig_store(id_, payload)

        w.rb.store_bucket = store
        r = Router()

        @r.actor(converter=BasicConverter)
        async def job(i: int):
            runs.append(i)
            if i == 1 and first_fails:
                raise KeyError("k")
            return i * 2

        await Job("job", args={"i": 1}, id_="m1", result_id="r1", _connection=w.conn).enqueue()
        if not second_later:
            await Job("job", args={"i": 2}, id_="m2", result_id="r2", _connection=w.conn).enqueue()
        worker = Worker(routers=[r], handle_signals=[], _connection=w.conn, graceful_shutdown_time=1.0, messages_limit=2, tasks_limit=1)
        task = asyncio.create_task(worker.run())
        if second_later:
            await asyncio.sleep(Fraction(1, 2))
            out["alive_after_first"] = not task.done()
            await Job("job", args={"i": 2}, id_="m2", result_id="r2", _connection=w.conn).enqueue()
        try:
            await asyncio.wait_for(task, timeout=20)
            out["returned"] = True
        except asyncio.TimeoutError:
            out["returned"] = False
        await asyncio.sleep(Fraction(1, 100))
        out["r1"] = await w.rb.get_bucket("r1")
        out["r2"] = await w.rb.get_bucket("r2")
        out["places"] = w.places()
        out["ops"] = {i: [c["op"] for c in w.rec.calls if c["id"] == i and c["op"] != "enqueue"] for i in ("m1", "m2")}

    run_async(main)
    S.cover("worker-ran")
    S.check("worker-survives-a-failing-store", out["returned"] and runs == [1, 2] and out.get("alive_after_first", True),
            info=f"runs={runs}, worker still running after the first message: {out.get('alive_after_first')}")
    S.check("first-message-disposition-kept", out["ops"]["m1"] == (["nack"] if first_fails else ["ack"]), info=str(out["ops"]))
    S.check("second-message-processed", out["ops"]["m2"] == ["ack"] and out["r2"] is not None and out["r2"].data == "4")
    if fail_first_store:
        S.check("nothing-stored-for-failed-store", out["r1"] is None)
    else:
        S.check("first-result-stored", out["r1"] is not None and out["r1"].success == (not first_fails))


def h13_slow_broker(S):
    """Result store fails while the broker's ack/nack/requeue is slow and the worker stops right after."""
    from repid import Job, Router, Worker
    from repid.converter import BasicConverter

    lat = S.real("broker_latency_s", 0, Fraction(60, 1000))
    kind = S.pick("outcome", 3)          # 0 success, 1 failure without retries, 2 failure with a retry left
    store_fails = S.flag("store_fails")
    S.tag("outcome", ["success", "fail-exhausted", "fail-retry-left"][kind])
    out = {}

    async def main(loop):
        w = World(results=True)
        await w.open(record=True)
        for name in ("ack", "nack", "requeue"):
            orig = getattr(w.broker, name)

            def slow(orig=orig):
                async def inner(*a, **k):
                    await asyncio.sleep(lat)
                    return await orig(*a, **k)
                return inner
            setattr(w.broker, name, slow())
        orig_store = w.rb.store_bucket

        async def store(id_, payload):
            if store_fails:
                raise ConnectionError("down")
            return await orig_store(id_, payload)

        w.rb.store_bucket = store
        r = Router()

        @r.actor(converter=BasicConverter, retry_policy=lambda retry_number=1: real_timedelta(hours=1))
        async def job():
            if kind:
                raise ValueError("x")
            return 1

        await Job("job", id_="m1", retries=1 if kind == 2 else 0, result_id="r1", _connection=w.conn).enqueue()
        worker = Worker(routers=[r], handle_signals=[], _connection=w.conn, graceful_shutdown_time=1.0, messages_limit=1)
        await asyncio.wait_for(worker.run(), timeout=20)
        await asyncio.sleep(Fraction(1, 5))      # loop idle: stragglers finish
        out["places"] = [(p[0], p[1].parameters.retries.already_tried) for p in w.places().get("m1", [])]

    run_async(main)
    S.cover("slow-broker")
    want = {0: [], 1: [("dead", 0)], 2: [("delayed", 1)]}[kind]
    S.check("disposition-stands-whatever-the-store-does", sorted(out["places"]) == want,
            info=f"latency {lat}: message is in {out['places']}, expected {want}")


def h13_redis_result(S):
    """Messages and results both in Redis (wire-encoded parameters): once the execution has finished Job.result returns its
    outcome with the configured ttl - on a machine with any UTC offset (timestamps are local wall-clock readings, Redis expiry
    counts unix seconds); with results disabled nothing is written."""
    from repid import Connection, Job, Router, Worker
    from repid.converter import BasicConverter
    from fakes import redis as fr

    store = S.flag("store_result")
    has_ttl = S.flag("result_ttl_given")
    ttl = S.int("result_ttl", SEC, 10 * 366 * 86400 * SEC)
    fails = S.flag("actor_fails")
    zone = S.int("utc_offset_quarter_hours", -48, 56) * (900 * SEC)
    later = S.int("read_again_after", 0, 12 * 366 * 86400 * SEC)
    out = {}

    async def main(loop):
        srv = fr.FakeServer(clock=lambda: vtime.current_clock().time())
        srv_m = fr.FakeServer(clock=lambda: vtime.current_clock().time())
        rb = fr.mk_bucket_broker(srv, use_result_bucket=True)
        mb = fr.mk_broker(srv_m)
        conn = Connection(mb, None, rb)
        r = Router()

        @r.actor(converter=BasicConverter)
        async def job(i: int):
            if fails:
                raise KeyError("k")
            return i * 2

        j = Job("job", args={"i": 21}, id_="m1", store_result=store, **({"result_id": "r1"} if store else {}),
                result_ttl=S.timedelta_us(ttl) if (has_ttl and store) else None, _connection=conn)
        await j.enqueue()
        worker = Worker(routers=[r], handle_signals=[], _connection=conn, graceful_shutdown_time=1.0, messages_limit=1, tasks_limit=1)
        await asyncio.wait_for(worker.run(), timeout=20)
        out["finished_at"] = us_of(vtime.current_clock().now())
        out["written"] = sorted(srv.kv)
        if not store:
            return
        out["bucket"] = await j.result
        # the same bucket read again some time later, on a clock of the harness's own
        pc = PinnedClock(out["finished_at"] + later)
        prev = vtime.current_clock()
        vtime.set_clock(pc)
        try:
            out["later"] = await j.result
        finally:
            vtime.set_clock(prev)

    with vtime.local_zone(zone):
        run_async(main)
    if not store:
        S.cover("results-disabled")
        S.check("nothing-written-when-results-are-disabled", out["written"] == [], info=f"keys on the results server: {out['written']}")
        return
    S.cover("redis-result-read")
    b = out["bucket"]
    S.check("result-readable-once-the-execution-has-finished", b is not None, info=f"Job.result returned None right after the run (utc offset {zone!r} us)")
    if b is not None:
        S.check("outcome-of-this-execution", b.success == (not fails) and (b.data == "42" if not fails else b.exception is not None), info=repr(b))
        if has_ttl:
            S.check("bucket-ttl-as-configured", us_of_td(b.ttl) == ttl, info=f"{b.ttl!r}")
            stamped = us_of(b.timestamp)
            now2 = out["finished_at"] + later
            if out["later"] is not None:
                S.check("gone-once-timestamp-plus-ttl-passed", now2 <= stamped + ttl + SEC)
            else:
                S.cover("redis-result-expired")
                S.check("kept-until-timestamp-plus-ttl", now2 >= stamped + ttl - SEC)
        else:
            S.check("no-ttl-means-no-expiry", b.ttl is None and out["later"] is not None)


def h13_overwrite_then_read(S):
    """A retry overwrites the result bucket; the bucket read later is the latest attempt's for as long as ITS time-to-live lasts."""
    from repid import Job, Router, Worker
    from repid.converter import BasicConverter

    ttl_s = 5
    retry_after = S.real("retry_delay_s", Fraction(1, 2), 3)
    read_after = S.real("read_after_the_first_store_s", Fraction(1, 10), 9)
    out = {}
    stored = []

    async def main(loop):
        w = World(results=True)
        await w.open(record=False)
        orig = w.rb.store_bucket

        async def store(id_, payload):
            stored.append(loop.time())
            return await orig(id_, payload)

        w.rb.store_bucket = store
        r = Router()
        runs = []

        @r.actor(converter=BasicConverter, retry_policy=lambda retry_number=1: vtime.VTimedelta(seconds=retry_after))
        async def job():
            runs.append(1)
            if len(runs) == 1:
                raise ValueError("first attempt fails")
            return "second"

        j = Job("job", id_="m1", retries=1, result_id="r1", result_ttl=real_timedelta(seconds=ttl_s), _connection=w.conn)
        await j.enqueue()
        worker = Worker(routers=[r], handle_signals=[], _connection=w.conn, graceful_shutdown_time=1.0, messages_limit=2)
        await asyncio.wait_for(worker.run(), timeout=30)
        out["after_run"] = await j.result
        wait = stored[0] + read_after - loop.time()
        if wait > 0:
            await asyncio.sleep(wait)
        out["read_at"] = loop.time()
        out["later"] = await j.result

    run_async(main)
    S.cover("overwritten-then-read")
    S.check("two-stores", len(stored) == 2, info=str(stored))
    if len(stored) != 2:
        return
    b = out["after_run"]
    S.check("bucket-is-the-latest-attempts", b is not None and b.success and b.data == '"second"', info=repr(b))
    alive_until = stored[1] + ttl_s
    if out["read_at"] < alive_until:
        S.cover("read-inside-the-latest-ttl")
        S.check("latest-result-kept-for-its-own-ttl", out["later"] is not None and out["later"].data == '"second"',
                info=f"stores at {stored}, ttl {ttl_s} s, read at {out['read_at']}: Job.result returned {out['later']!r}")


def h13_connection(S):
    """Connection validates that the results broker builds result buckets."""
    from repid import Connection, InMemoryBucketBroker, InMemoryMessageBroker
    good = S.flag("results_broker_uses_result_bucket")
    try:
        Connection(InMemoryMessageBroker(), None, InMemoryBucketBroker(use_result_bucket=good))
        ok = True
    except ValueError:
        ok = False
    S.cover("connection-validated")
    S.check("results-broker-must-build-result-buckets", ok == good)


HARNESSES = [
    Harness(name="H13-chain", scenario=h13_chain, workers=16, budget_s=900,
            params={"quick": {"attempts": 2}, "thorough": {"attempts": 3}},
            bounds={"chain": "2 (quick) / 3 (thorough) attempts with any failure pattern", "result storing": "on/off", "result ttl": "None or any µs in [1 s, 100 y]",
                    "store faults": "each store_bucket call fails or not", "clock": "start 2000..2050, symbolic gaps up to 1 h during and between attempts"},
            functions=["_processor.py:_Processor.process", "_processor.py:_Processor.set_result_bucket", "job.py:Job.result",
                       "connections/in_memory/bucket_broker.py:InMemoryBucketBroker.store_bucket"],
            covers=["attempt-0", "attempt-1", "store-failed", "recurring-later-run"]),
    Harness(name="H13-worker", scenario=h13_worker, workers=4,
            bounds={"two messages": "first one's store fails or not, first actor fails or not"},
            functions=["worker.py:Worker.run"], covers=["worker-ran"]),
    Harness(name="H13-slow-broker", scenario=h13_slow_broker, workers=8,
            bounds={"broker ack/nack/requeue latency": "any real in [0, 60 ms]", "outcome": "success / exhausted failure / failure with a retry left",
                    "store": "fails or not", "worker": "messages_limit=1 (stops right after the message)"},
            functions=["_processor.py:_Processor.process", "worker.py:Worker.run"], covers=["slow-broker"]),
    Harness(name="H13-redis-result", scenario=h13_redis_result, workers=8,
            bounds={"brokers": "Redis message broker and Redis result bucket broker (two fake servers)", "result storing": "on/off", "result ttl": "None or any µs in [1 s, 10 y]", "utc offset of the machine": "-12:00 .. +14:00 in quarter hours", "actor": "returns / raises",
                    "second read": "up to 12 years later"},
            functions=["connections/redis/bucket_broker.py:RedisBucketBroker.store_bucket", "connections/redis/bucket_broker.py:RedisBucketBroker.get_bucket",
                       "_processor.py:_Processor.set_result_bucket", "job.py:Job.result"],
            covers=["redis-result-read", "redis-result-expired", "results-disabled"],
            stubs=["fake Redis server: SET with EXAT against the virtual clock's unix time; the machine's zone is a symbolic fixed offset (tzset in the replay)"]),
    Harness(name="H13-overwrite-then-read", scenario=h13_overwrite_then_read, workers=4,
            bounds={"job": "retries 1, first attempt fails, result ttl 5 s", "retry delay": "any real in [0.5 s, 3 s]", "second read": "any real time in [0.1 s, 9 s] after the first store"},
            functions=["connections/in_memory/bucket_broker.py:InMemoryBucketBroker.store_bucket", "connections/in_memory/bucket_broker.py:InMemoryBucketBroker.get_bucket", "job.py:Job.result"],
            covers=["overwritten-then-read", "read-inside-the-latest-ttl"]),
    Harness(name="H13-connection", scenario=h13_connection, bounds={"results broker bucket class": "ArgsBucket / ResultBucket"},
            functions=["connection.py:Connection.__post_init__"], covers=["connection-validated"]),
]
from harness.c16 import h16_eager  # noqa: E402

HARNESSES.append(
    Harness(name="H13-eager-result", scenario=h16_eager, workers=16, params={"quick": {"pre_len": 3}, "thorough": {"pre_len": 4}},
            bounds={"actor script": "0..3 (quick) / 0..4 (thorough) calls from {add_callback, set_result, set_exception} then an eager response"},
            functions=["dependencies/message_dependency.py:MessageDependency.set_result", "dependencies/message_dependency.py:MessageDependency.set_exception"],
            covers=["result-set"]))
ASSUMPTIONS = ["in-memory bucket broker; eager set_result/set_exception ordering is checked under C16 (H16-eager-order)"]
