"""C11 - a job reaches exactly the actor it names, only through that actor's queue."""
import asyncio
from fractions import Fraction

from engine.harness import Harness
from harness.common import World, mem_places, place_names, run_async

NAMES = ["a", "b"]
QUEUES = ["q1", "q2"]


def h11_router(S, n_routers=2, regs=2):
    """Routers with arbitrary (name, queue) registrations incl. overrides, included into workers."""
    from repid import Connection, InMemoryMessageBroker, Router, Worker
    from repid.converter import BasicConverter

    conn = Connection(InMemoryMessageBroker())
    routers = []
    model = []          # per router: dict name -> (queue, marker)
    marker = [0]

    def register(router, mdl, name, queue):
        marker[0] += 1
        mk = marker[0]

        async def fn():
            return mk
        fn.__name__ = name
        router.actor(fn, name=name, queue=queue, converter=BasicConverter)
        mdl[name] = (queue, fn)

    for r in range(n_routers):
        router = Router()
        mdl = {}
        k = S.pick(f"regs{r}", regs + 1)
        for j in range(k):
            register(router, mdl, NAMES[S.pick(f"name{r}_{j}", 2)], QUEUES[S.pick(f"queue{r}_{j}", 2)])
        routers.append(router)
        model.append(mdl)

    def expect(mdls):
        actors = {}
        for m in mdls:
            actors.update(m)
        tbq = {}
        for name, (queue, fn) in actors.items():
            tbq.setdefault(queue, set()).add(name)
        return actors, tbq

    def check_router(label, router, mdls):
        actors, tbq = expect(mdls)
        S.check(label + ":actor-names-are-the-union", set(router.actors) == set(actors), info=f"{sorted(router.actors)} vs {sorted(actors)}")
        for name, (queue, fn) in actors.items():
            if name in router.actors:
                a = router.actors[name]
                S.check(label + ":last-registration-wins", a.fn is fn and a.queue == queue, info=f"{name}: queue {a.queue}, expected {queue}")
        got = {q: set(t) for q, t in router.topics_by_queue.items()}   # an empty topic set would mean "no filter"
        S.check(label + ":topics-by-queue-follow-the-winning-registrations", got == tbq, info=f"{got} vs {tbq}")

    for i, (router, mdl) in enumerate(zip(routers, model)):
        check_router(f"router{i}", router, [mdl])
    w_all = Worker(routers=routers, handle_signals=[], _connection=conn)
    check_router("worker-of-all", w_all, model)
    # registering further actors on the worker must not leak into the included routers
    extra = {}
    register(w_all, extra, "c", QUEUES[S.pick("extra_queue", 2)])
    check_router("worker-after-own-registration", w_all, model + [extra])
    for i, (router, mdl) in enumerate(zip(routers, model)):
        check_router(f"router{i}-after-inclusion", router, [mdl])
    w_first = Worker(routers=routers[:1], handle_signals=[], _connection=conn)
    check_router("worker-of-first-router-built-later", w_first, model[:1])
    S.cover("routers-checked")


def h11_worker(S, n_msgs=3, backend="mem"):
    """A shared queue with own and foreign messages: only own ones run, foreign ones stay available, untouched."""
    from repid import Job, Router, Worker
    from repid.converter import BasicConverter

    # service A: ping@shared, report@a_private ; service B: report@shared (run or not)
    kinds = []
    for i in range(n_msgs):
        kinds.append(["ping@shared", "report@shared", "report@a_private", "unknown@shared", "ping_extra@shared"][S.pick(f"msg{i}", 5)])
    run_b = S.flag("service_b_runs")
    ran = []
    out = {}

    async def main(loop):
        w = World(backend=backend)
        await w.open(queues=("shared", "a_private"), record=True)
        ra = Router()

        @ra.actor(name="ping", queue="shared", converter=BasicConverter)
        async def a_ping(i: int):
            ran.append(("A.ping", i))

        @ra.actor(name="report", queue="a_private", converter=BasicConverter)
        async def a_report(i: int):
            ran.append(("A.report", i))

        rb = Router()

        @rb.actor(name="report", queue="shared", converter=BasicConverter)
        async def b_report(i: int):
            ran.append(("B.report", i))

        before = {}
        for i, kd in enumerate(kinds):
            name, queue = kd.split("@")
            key, _, params = await Job(name, queue=queue, args={"i": i}, id_=f"m{i}", _connection=w.conn).enqueue()
            before[f"m{i}"] = params
        w.rec.calls.clear()
        wa = Worker(routers=[ra], handle_signals=[], _connection=w.conn, graceful_shutdown_time=1.0, tasks_limit=2)
        tasks = [asyncio.create_task(wa.run())]
        if run_b:
            wb = Worker(routers=[rb], handle_signals=[], _connection=w.conn, graceful_shutdown_time=1.0, tasks_limit=2)
            tasks.append(asyncio.create_task(wb.run()))
        await asyncio.sleep(Fraction(3, 10) if backend == "mem" else Fraction(3, 2))
        out["alive"] = [not t.done() for t in tasks]
        out["task_errors"] = [repr(t.exception()) for t in tasks if t.done() and not t.cancelled() and t.exception()]
        for t in tasks:
            t.cancel()
        await asyncio.gather(*tasks, return_exceptions=True)
        await asyncio.sleep(Fraction(1, 100) if backend == "mem" else Fraction(1, 2))
        out["places"] = {**{k: v for k, v in w.places("shared").items()}, **{k: v for k, v in w.places("a_private").items()}}
        out["before"] = before
        out["ops"] = {f"m{i}": [c["op"] for c in w.rec.calls if c["id"] == f"m{i}"] for i in range(n_msgs)}

    run_async(main)
    S.cover("workers-ran")
    S.check("worker-keeps-running-next-to-foreign-messages", all(out["alive"]), info=f"{kinds}: {out['task_errors']}")
    for i, kd in enumerate(kinds):
        mid = f"m{i}"
        owner = {"ping@shared": "A.ping", "report@a_private": "A.report", "report@shared": "B.report" if run_b else None,
                 "unknown@shared": None, "ping_extra@shared": None}[kd]
        execs = [who for who, j in ran if j == i]
        if owner is None:
            S.cover("foreign-message")
            S.check("foreign-message-is-never-executed", execs == [], info=f"{kd} executed by {execs}")
            pl = out["places"].get(mid, [])
            S.check("foreign-message-stays-available", [p[0] for p in pl] == ["waiting"], info=f"{kd}: {[p[0] for p in pl]} ops {out['ops'][mid]}")
            if [p[0] for p in pl] == ["waiting"]:
                S.check("foreign-message-untouched", pl[0][1].parameters == out["before"][mid])
            S.check("foreign-message-not-disposed", not [o for o in out["ops"][mid] if o in ("ack", "nack", "requeue")], info=str(out["ops"][mid]))
        else:
            S.check("job-runs-exactly-its-actor-once", execs == [owner], info=f"{kd} executed by {execs}, expected [{owner}]")


def h11_swap(S):
    """An idle worker next to a foreign message; between two of its polls the foreign message leaves and an own job arrives."""
    from repid import Job, Router, Worker
    from repid.converter import BasicConverter

    phase = S.real("swap_instant_within_the_poll_interval", 0, Fraction(1, 1000))
    n_foreign = S.pick("foreign_messages_waiting", 2) + 1
    ran = []
    out = {}

    async def main(loop):
        w = World()
        await w.open(queues=("shared",), record=False)
        ra = Router()

        @ra.actor(name="ping", queue="shared", converter=BasicConverter)
        async def a_ping(i: int):
            ran.append(i)

        for i in range(n_foreign):
            await Job("report", queue="shared", args={"i": i}, id_=f"f{i}", _connection=w.conn).enqueue()
        wa = Worker(routers=[ra], handle_signals=[], _connection=w.conn, graceful_shutdown_time=1.0, tasks_limit=2)
        task = asyncio.create_task(wa.run())
        await asyncio.sleep(Fraction(1, 100) + phase)
        # service B takes one of its messages and, in the same instant, somebody enqueues a job for service A
        cons_b = w.broker.get_consumer("shared", ["report"])
        await cons_b.start()
        out["b_got"] = await asyncio.wait_for(cons_b.consume(), timeout=1)
        await Job("ping", queue="shared", args={"i": 7}, id_="p1", _connection=w.conn).enqueue()
        await asyncio.sleep(Fraction(1, 20))
        out["alive"] = not task.done()
        task.cancel()
        await asyncio.gather(task, return_exceptions=True)

    run_async(main)
    S.cover("swapped")
    S.check("own-job-is-not-blocked-by-foreign-messages", ran == [7], info=f"service A executed {ran} although its job p1 was waiting (foreign messages in the queue: {n_foreign})")


def h11_rabbit_foreign(S):
    """RabbitMQ: a worker hands a foreign message back whatever state it is in (expired, not decodable by this service)."""
    import repid.data._parameters as P
    from engine.vtime import PinnedClock, real_timedelta
    from harness.common import T0, SEC
    from repid import Job, Router, Worker
    from repid.converter import BasicConverter
    from repid.data._key import RoutingKey

    state = ["live", "expired", "foreign-parameters-format"][S.pick("foreign_message_state", 3)]
    S.tag("foreign_message_state", state)
    clock = PinnedClock(T0)
    ran = []
    out = {}

    async def main(loop):
        w = World(backend="rabbit")
        await w.open(queues=("shared",), record=False)
        ra = Router()

        @ra.actor(name="ping", queue="shared", converter=BasicConverter)
        async def a_ping(i: int):
            ran.append(i)

        key = RoutingKey(topic="report", queue="shared", id_="f1")
        if state == "foreign-parameters-format":
            # the other service uses its own parameters format: only its own consumers can decode it
            import json
            from pamqp import commands as spec
            await w.ch.basic_publish(json.dumps({"payload": "x", "parameters": "<<not ours>>"}).encode(), routing_key="shared",
                                     properties=spec.Basic.Properties(message_id="f1", headers={"topic": "report", "queue": "shared"}, priority=5))
        else:
            params = P.Parameters(timestamp=P.datetime.now(), ttl=real_timedelta(seconds=1) if state == "expired" else None)
            await w.broker.enqueue(key, "x", params)
        await Job("ping", queue="shared", args={"i": 7}, id_="p1", _connection=w.conn).enqueue()
        clock.set(T0 + 2 * SEC)
        # the worker stops by itself after its own job (the foreign message is in front of it in the queue)
        wa = Worker(routers=[ra], handle_signals=[], _connection=w.conn, graceful_shutdown_time=1.0, tasks_limit=2, messages_limit=1)
        try:
            await asyncio.wait_for(wa.run(), timeout=5)
            out["alive"] = True
        except asyncio.TimeoutError:
            out["alive"] = False
        await asyncio.sleep(Fraction(1, 2))
        snap = w.srv.snapshot()
        out["where"] = sorted(q for q, ids in snap.items() if q != "__unacked__" and "f1" in ids)
        out["unacked"] = [i for ids in snap["__unacked__"].values() for i in ids]
        out["errors"] = [repr(e)[:200] for e in loop.task_errors()]

    run_async(main, clock=clock)
    S.cover("foreign-" + state)
    S.check("own-job-runs", ran == [7], info=str(ran))
    S.check("worker-gets-to-its-own-job-past-the-foreign-message", out["alive"])
    S.check("foreign-message-stays-available", out["where"] == ["shared"] and "f1" not in out["unacked"],
            info=f"foreign message ({state}) ended in {out['where']}, unacknowledged: {out['unacked']}; task errors: {out['errors']}")


def h11_rabbit_paused(S):
    """RabbitMQ, a queue shared by two services: while worker A is saturated (its consumer paused) a message for the other
    service arrives - it stays available, worker B runs it without waiting for A's slot to free."""
    from fakes import amqp as fa
    from repid import Connection, Job, Router, Worker
    from repid.converter import BasicConverter

    n_foreign = S.pick("foreign_messages", 3) + 1
    per_consumer = S.flag("server_applies_qos_per_consumer")
    ran_b = []
    out = {}

    async def main(loop):
        w = World(backend="rabbit")
        w.srv.qos_per_consumer = per_consumer
        await w.open(queues=("shared",), record=False)
        brb, chb, _ = fa.mk_broker(w.srv)
        conn_b = Connection(brb)
        ra, rb = Router(), Router()
        # A reaches its messages_limit with one long job: its consumer is paused (and still registered) until the job is done

        @ra.actor(name="ping", queue="shared", converter=BasicConverter)
        async def a_ping():
            await asyncio.sleep(3)

        @rb.actor(name="report", queue="shared", converter=BasicConverter)
        async def b_report(i: int):
            ran_b.append((i, loop.time()))

        await Job("ping", queue="shared", id_="p1", _connection=w.conn).enqueue()
        wa = Worker(routers=[ra], handle_signals=[], _connection=w.conn, graceful_shutdown_time=10.0, tasks_limit=5, messages_limit=1)
        wb = Worker(routers=[rb], handle_signals=[], _connection=conn_b, graceful_shutdown_time=1.0, tasks_limit=2, messages_limit=n_foreign)
        ta = asyncio.create_task(wa.run())
        await asyncio.sleep(Fraction(1, 2))            # A is busy now
        tb = asyncio.create_task(wb.run())
        await asyncio.sleep(Fraction(1, 10))
        t0 = loop.time()
        for i in range(n_foreign):
            await Job("report", queue="shared", args={"i": i}, id_=f"f{i}", _connection=conn_b).enqueue()
        try:
            await asyncio.wait_for(tb, timeout=Fraction(3, 2))
            out["b_done"] = True
        except asyncio.TimeoutError:
            out["b_done"] = False
        out["t0"] = t0
        await asyncio.wait_for(ta, timeout=10)

    run_async(main)
    S.cover("paused-neighbour")
    S.check("foreign-messages-stay-available-to-their-worker", out["b_done"] and sorted(i for i, _ in ran_b) == list(range(n_foreign)),
            info=f"worker B ran {ran_b} within 1.5 s of the enqueue while worker A was saturated (expected {n_foreign} jobs)")


def h11_plugin_markers(S):
    """The testing plugin builds its worker from every `repid` marker that applies to a test (module, class, function):
    the union of their routers' actors, the registration closest to the test winning a name."""
    import pytest
    from repid import Router
    from repid.testing import plugin

    levels = S.pick("marker_levels", 3) + 1                  # function only / + class / + module
    shapes = [S.pick(f"level{i}_routers", 4) for i in range(levels)]    # 0: marker without routers=, 1: [ra], 2: [rb], 3: [ra2, rb] (ra2 re-registers a name)
    fn_called = {}

    def mk(name, tag):
        r = Router()

        async def fn():
            fn_called[name] = tag

        r.actor(name=name)(fn)
        return r, tag

    marks, expected = [], {}
    for i, sh in enumerate(shapes):
        rs = {0: None, 1: [mk("a", f"a@{i}")], 2: [mk("b", f"b@{i}")], 3: [mk("a", f"a2@{i}"), mk("b", f"b2@{i}")]}[sh]
        marks.append(pytest.mark.repid(**({} if rs is None else {"routers": [r for r, _ in rs]})).mark)
        for r, tag in (rs or []):
            for nm in r.actors:
                expected.setdefault(nm, None)

    class Node:          # the two marker lookups of _pytest.nodes.Node, closest marker first
        def iter_markers(self, name=None):
            return iter([m for m in marks if name is None or m.name == name])

        def get_closest_marker(self, name, default=None):
            return next(self.iter_markers(name), default)

    class Request:
        node = Node()

    build = plugin._construct_repid_router_from_markers
    build = getattr(build, "_get_wrapped_function", lambda: getattr(build, "__wrapped__", build))()
    router = build(Request())
    S.cover("markers-combined")
    S.check("worker-serves-the-union-of-all-marked-routers", set(router.actors) == set(expected),
            info=f"markers (closest first) carry {[None if sh == 0 else ['a'] if sh == 1 else ['b'] if sh == 2 else ['a', 'b'] for sh in shapes]}, "
                 f"the plugin's router has {sorted(router.actors)}")


def h11_late_registration(S):
    """Actors registered on a worker after it was built (include_router or @worker.actor) are the last registrations of their
    names: they are the ones that run, on the queue they name."""
    from repid import Job, Router, Worker
    from repid.converter import BasicConverter

    how = ["include_router", "worker.actor"][S.pick("registered_through", 2)]
    moves_queue = S.flag("override_moves_the_name_to_another_queue")
    ran = []
    out = {}

    async def main(loop):
        w = World()
        await w.open(queues=("q1", "q2"), record=False)
        r1 = Router()

        @r1.actor(name="report", queue="q1", converter=BasicConverter)
        async def base_report():
            ran.append("constructor-router")

        worker = Worker(routers=[r1], handle_signals=[], _connection=w.conn, graceful_shutdown_time=1.0, messages_limit=1)
        newq = "q2" if moves_queue else "q1"
        if how == "include_router":
            r2 = Router()

            @r2.actor(name="report", queue=newq, converter=BasicConverter)
            async def override_report():
                ran.append("later-registration")

            worker.include_router(r2)
        else:
            @worker.actor(name="report", queue=newq, converter=BasicConverter)
            async def worker_report():
                ran.append("later-registration")

        out["topics_before_run"] = {q: sorted(t) for q, t in worker.topics_by_queue.items() if t}
        await Job("report", queue=newq, id_="j1", _connection=w.conn).enqueue()
        if moves_queue:
            # a job of that name on the old queue now belongs to somebody else
            await Job("report", queue="q1", id_="foreign", _connection=w.conn).enqueue()
        try:
            await asyncio.wait_for(worker.run(), timeout=5)
            out["returned"] = True
        except asyncio.TimeoutError:
            out["returned"] = False
        out["foreign"] = place_names(mem_places(w.broker, "q1"), "foreign") if moves_queue else None

    run_async(main)
    S.cover("late-registration")
    S.check("last-registration-wins", ran == ["later-registration"] and out["returned"], info=f"ran={ran} returned={out['returned']} topics before run={out['topics_before_run']}")
    if moves_queue:
        S.check("foreign-message-stays-available", out["foreign"] == ["waiting"], info=str(out["foreign"]))


def h11_rabbit_same_id(S):
    """RabbitMQ, a queue shared by two services whose jobs happen to carry the same id (ids are scoped per topic): while worker A
    holds its own job, the other service's message with that id passes by - A settles its own delivery, the other one stays available."""
    import repid.data._parameters as P
    from repid import Job, Router, Worker
    from repid.converter import BasicConverter
    from repid.data._key import RoutingKey

    own_fails = S.flag("own_job_fails")
    ran = []
    out = {}

    async def main(loop):
        w = World(backend="rabbit")
        await w.open(queues=("shared",), record=False)
        ra = Router()

        @ra.actor(name="send_email", queue="shared", converter=BasicConverter)
        async def send_email():
            ran.append("email")
            await asyncio.sleep(Fraction(1, 2))
            if own_fails:
                raise ValueError("x")

        await Job("send_email", queue="shared", id_="user42", _connection=w.conn).enqueue()
        wa = Worker(routers=[ra], handle_signals=[], _connection=w.conn, graceful_shutdown_time=1.0, tasks_limit=3, messages_limit=2)
        task = asyncio.create_task(wa.run())
        await asyncio.sleep(Fraction(1, 10))
        # the other service's job with the same id arrives while A's own one is running (A keeps consuming: it is below its limits)
        await w.broker.enqueue(RoutingKey(topic="send_sms", queue="shared", id_="user42"), "x", P.Parameters(timestamp=P.datetime.now()))
        await asyncio.sleep(1)
        await Job("send_email", queue="shared", id_="another", _connection=w.conn).enqueue()     # lets A reach its limit and return
        await asyncio.wait_for(task, timeout=5)
        await asyncio.sleep(Fraction(1, 2))
        out["ready"] = {qn: [(m.props.headers["topic"], m.props.message_id) for m in q.ready] for qn, q in w.srv.queues.items() if q.ready}
        out["unacked"] = [(m.props.headers["topic"], m.props.message_id) for ch in w.srv.channels for (_, m, _) in ch.unacked.values()]

    run_async(main)
    S.cover("same-id-neighbour")
    S.check("own-job-runs", ran == ["email", "email"], info=str(ran))
    sms_places = [qn for qn, ms in out["ready"].items() if ("send_sms", "user42") in ms]
    S.check("foreign-message-stays-available", sms_places == ["shared"] and ("send_sms", "user42") not in out["unacked"],
            info=f"the other service's message is in {sms_places}, unacknowledged deliveries: {out['unacked']}, queues: {out['ready']}")
    email_places = [qn for qn, ms in out["ready"].items() if ("send_email", "user42") in ms]
    S.check("own-message-is-settled", email_places == (["shared:dead"] if own_fails else []) and ("send_email", "user42") not in out["unacked"],
            info=f"own message in {email_places}, unacknowledged: {out['unacked']}")


def h11_repeated_router(S):
    """A router object passed more than once: Worker(routers=rs) equals including them one after the other - the last one wins."""
    from repid import Job, Router, Worker
    from repid.converter import BasicConverter

    order = [["base", "override", "base"], ["base", "base", "override"], ["override", "base", "override"], ["base", "override"]][S.pick("routers", 4)]
    ran = []
    out = {}

    async def main(loop):
        w = World()
        await w.open(queues=("reports", "reports_v2"), record=False)
        base, override = Router(), Router()

        @base.actor(name="report", queue="reports", converter=BasicConverter)
        async def r_base():
            ran.append("base@reports")

        @override.actor(name="report", queue="reports_v2", converter=BasicConverter)
        async def r_over():
            ran.append("override@reports_v2")

        objs = {"base": base, "override": override}
        worker = Worker(routers=[objs[n] for n in order], handle_signals=[], _connection=w.conn, graceful_shutdown_time=1.0, messages_limit=1)
        ref = Router()
        for n in order:
            ref.include_router(objs[n])
        out["same_as_sequential"] = (set(worker.actors) == set(ref.actors)
                                     and {q: sorted(t) for q, t in worker.topics_by_queue.items() if t} == {q: sorted(t) for q, t in ref.topics_by_queue.items() if t}
                                     and all(worker.actors[k].queue == ref.actors[k].queue for k in ref.actors))
        winner_queue = "reports" if order[-1] == "base" else "reports_v2"
        await Job("report", queue=winner_queue, id_="j1", _connection=w.conn).enqueue()
        try:
            await asyncio.wait_for(worker.run(), timeout=5)
            out["returned"] = True
        except asyncio.TimeoutError:
            out["returned"] = False
        out["want"] = "base@reports" if order[-1] == "base" else "override@reports_v2"

    run_async(main)
    S.cover("repeated-router")
    S.check("same-as-including-one-after-the-other", out["same_as_sequential"], info=f"routers={order}")
    S.check("last-registration-wins", ran == [out["want"]] and out["returned"], info=f"routers={order}: ran {ran}, expected {out['want']}")


def h11_redis_window(S):
    """Redis: foreign messages filling one or more fetch windows in front of an own job do not hide it."""
    from repid import Job, Router, Worker
    from repid.converter import BasicConverter

    window = 2
    n_foreign = [1, 2, 3, 4, 5][S.pick("foreign_messages_in_front", 5)]
    delayed = S.flag("all_carry_a_past_due_time")          # the same through the due-delayed set
    ran = []
    out = {}

    async def main(loop):
        w = World(backend="redis")
        await w.open(queues=("shared",), record=False)
        cls = w.broker.CONSUMER_CLASS
        saved = cls.PREFETCH_AMOUNT
        cls.PREFETCH_AMOUNT = window
        try:
            ra = Router()

            @ra.actor(name="ping", queue="shared", converter=BasicConverter)
            async def a_ping(i: int):
                ran.append(i)

            import repid.data._parameters as P
            from repid.data._key import RoutingKey
            from engine.vtime import real_timedelta
            for i in range(n_foreign + 1):
                own = i == n_foreign
                now = P.datetime.now()
                params = P.Parameters(timestamp=now, delay=P.DelayProperties(next_execution_time=now - real_timedelta(seconds=5 - i)) if delayed else P.DelayProperties())
                await w.broker.enqueue(RoutingKey(topic="ping" if own else "report", queue="shared", id_=f"m{i}"), '{"i": %d}' % i, params)
            wa = Worker(routers=[ra], handle_signals=[], _connection=w.conn, graceful_shutdown_time=1.0, tasks_limit=2, messages_limit=1)
            try:
                await asyncio.wait_for(wa.run(), timeout=5)
                out["returned"] = True
            except asyncio.TimeoutError:
                out["returned"] = False
        finally:
            cls.PREFETCH_AMOUNT = saved

    from engine.vtime import PinnedClock
    from harness.common import T0
    run_async(main)
    S.cover("window-checked")
    S.check("own-job-is-not-blocked-by-foreign-messages", ran == [n_foreign] and out["returned"],
            info=f"{n_foreign} foreign message(s) in front (fetch window {window}): service A executed {ran}")


def h11_busy_neighbour(S):
    """Another service has long-running jobs of its own in flight on the shared queue: that never blocks this worker's jobs."""
    from repid import Job, Router, Worker
    from repid.converter import BasicConverter

    limit_a = S.pick("tasks_limit_of_this_worker", 2) + 1
    in_flight_b = S.pick("foreign_jobs_in_flight", 3) + 1
    ran = []

    async def main(loop):
        w = World()
        await w.open(queues=("shared",), record=False)
        ra, rb = Router(), Router()

        @ra.actor(name="ping", queue="shared", converter=BasicConverter)
        async def a_ping(i: int):
            ran.append(i)

        @rb.actor(name="report", queue="shared", converter=BasicConverter)
        async def b_report(i: int):
            await asyncio.sleep(1)

        for i in range(in_flight_b):
            await Job("report", queue="shared", args={"i": i}, id_=f"f{i}", _connection=w.conn).enqueue()
        wb = Worker(routers=[rb], handle_signals=[], _connection=w.conn, graceful_shutdown_time=0.01, tasks_limit=5)
        tb = asyncio.create_task(wb.run())
        await asyncio.sleep(Fraction(1, 50))
        await Job("ping", queue="shared", args={"i": 7}, id_="p1", _connection=w.conn).enqueue()
        wa = Worker(routers=[ra], handle_signals=[], _connection=w.conn, graceful_shutdown_time=0.01, tasks_limit=limit_a)
        ta = asyncio.create_task(wa.run())
        await asyncio.sleep(Fraction(1, 10))
        for t in (ta, tb):
            t.cancel()
        await asyncio.gather(ta, tb, return_exceptions=True)

    run_async(main)
    S.cover("busy-neighbour")
    S.check("own-job-is-not-blocked-by-foreign-messages", ran == [7],
            info=f"{in_flight_b} foreign job(s) in flight at another worker, this worker's tasks_limit={limit_a}: executed {ran}")


HARNESSES = [
    Harness(name="H11-busy-neighbour", scenario=h11_busy_neighbour,
            bounds={"foreign jobs in flight at another worker": "1..3 (1 s each)", "this worker's tasks_limit": "1 or 2"},
            functions=["connections/in_memory/consumer.py:_InMemoryConsumer.consume", "worker.py:Worker.run"], covers=["busy-neighbour"]),
    Harness(name="H11-redis-window", scenario=h11_redis_window, workers=8,
            bounds={"fetch window": "2 names per round trip (PREFETCH_AMOUNT set by the harness; the code is window-size generic)",
                    "foreign messages in front of the own job": "1..5 (less than, exactly, and more than whole windows)", "category": "normal list or due-delayed set"},
            functions=["connections/redis/consumer.py:_RedisConsumer.__fetch_message_name"], covers=["window-checked"], stubs=["fake Redis server"]),
    Harness(name="H11-repeated-router", scenario=h11_repeated_router,
            bounds={"routers": "two routers registering one name on different queues, passed in four orders with repeats"},
            functions=["worker.py:Worker.__init__", "router.py:Router.include_router"], covers=["repeated-router"]),
    Harness(name="H11-late-registration", scenario=h11_late_registration,
            bounds={"worker": "built from a router, then a registration of the same name through include_router or @worker.actor, on the same or another queue"},
            functions=["worker.py:Worker.run", "router.py:Router.include_router", "router.py:Router.actor"], covers=["late-registration"]),
    Harness(name="H11-rabbit-same-id", scenario=h11_rabbit_same_id,
            bounds={"shared RabbitMQ queue": "worker A holds its own job (0.5 s, succeeds or fails) while another service's message with the same id is delivered to it"},
            functions=["connections/rabbitmq/consumer.py:_RabbitConsumer.on_new_message", "connections/rabbitmq/message_broker.py:RabbitMessageBroker.ack"],
            covers=["same-id-neighbour"], stubs=["fake AMQP server"]),
    Harness(name="H11-rabbit-paused-neighbour", scenario=h11_rabbit_paused,
            bounds={"workers": "A (messages_limit 1, reached with a job that runs 3 s: its consumer is paused but registered) and B on one shared RabbitMQ queue",
                    "foreign messages": "1..3, published while A waits for its job", "server": "basic.qos applied to the channel at once, or per consumer as RabbitMQ does for global=false"},
            functions=["connections/rabbitmq/consumer.py:_RabbitConsumer.on_new_message", "connections/rabbitmq/consumer.py:_RabbitConsumer.pause"],
            covers=["paused-neighbour"], stubs=["fake AMQP server: round-robin dispatch among consumers with prefetch room (prefetch counted per channel)"]),
    Harness(name="H11-rabbit-foreign", scenario=h11_rabbit_foreign,
            bounds={"foreign message": "live, expired (ttl run out), or carrying parameters in a format only its own service reads", "worker": "serves another topic of the shared queue"},
            functions=["connections/rabbitmq/consumer.py:_RabbitConsumer.on_new_message"], covers=["foreign-live", "foreign-expired", "foreign-foreign-parameters-format"],
            stubs=["fake AMQP server; a rejected message is offered again (the 0.1 s pause of the consumer bounds the loop)"]),
    Harness(name="H11-swap", scenario=h11_swap, workers=4,
            bounds={"foreign messages waiting": "1 or 2", "swap instant": "any real phase within the consumer's 1 ms poll interval",
                    "swap": "another service's consumer takes one foreign message and an own job is enqueued, with no virtual time in between"},
            functions=["connections/in_memory/consumer.py:_InMemoryConsumer.consume"], covers=["swapped"]),
    Harness(name="H11-router", scenario=h11_router, workers=16, budget_s=900,
            params={"quick": {"n_routers": 2, "regs": 2}, "thorough": {"n_routers": 3, "regs": 2}},
            bounds={"routers": "2 (quick) / 3 (thorough), each with 0..2 registrations over names {a, b} and queues {q1, q2} (overrides included)",
                    "then": "a worker of all routers, one more registration on that worker, a second worker of the first router"},
            functions=["router.py:Router.actor", "router.py:Router.include_router", "worker.py:Worker.__init__"], covers=["routers-checked"]),
    Harness(name="H11-worker", scenario=h11_worker, workers=16, budget_s=900,
            params={"quick": {"n_msgs": 3}, "thorough": {"n_msgs": 4}},
            bounds={"messages": "3 (quick) / 4 (thorough), each one of ping@shared, report@shared, report@a_private, unknown@shared, ping_extra@shared (a topic that extends an own topic's name)",
                    "workers": "service A (ping@shared, report@a_private) always; service B (report@shared) running or not"},
            functions=["worker.py:Worker.run", "_runner.py:_Runner.run_one_queue", "connections/in_memory/consumer.py:_InMemoryConsumer.consume"],
            covers=["workers-ran", "foreign-message"]),
]
HARNESSES.append(
    Harness(name="H11-worker-redis", scenario=h11_worker, workers=16, budget_s=900,
            params={"quick": {"n_msgs": 2, "backend": "redis"}, "thorough": {"n_msgs": 3, "backend": "redis"}},
            bounds={"as H11-worker": "on the real Redis broker/consumer (topic prefix filter, prefetch buffer) over the fake server"},
            functions=["connections/redis/consumer.py:_RedisConsumer.backgroud_consume"], covers=["workers-ran", "foreign-message"],
            stubs=["fake Redis server"]))
from harness.c10 import h10_plugin  # noqa: E402

HARNESSES.append(
    Harness(name="H11-plugin", scenario=h10_plugin,
            bounds={"as H10-plugin": "run-on-enqueue testing mode: a job whose name is known but whose queue its actor does not serve starts no worker and is not run"},
            functions=["testing/modifiers.py:RunWorkerOnEnqueueModifier"], covers=["plugin-ran"]))
HARNESSES.append(
    Harness(name="H11-plugin-markers", scenario=h11_plugin_markers,
            bounds={"markers applying to the test": "1..3 levels (function, class, module), each without routers=, with one router, or with two"},
            functions=["testing/plugin.py:_construct_repid_router_from_markers"], covers=["markers-combined"],
            stubs=["pytest's request.node replaced by an object with iter_markers/get_closest_marker over real Mark objects"]))
ASSUMPTIONS = ["in-memory broker; Redis prefix filter exactness is proved under C07 (H07-names-injective: topic-prefix-filter-exact); RabbitMQ reject-requeue loop is server behaviour"]
