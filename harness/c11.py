"""C11 - a job reaches exactly the actor it names, only through that actor's queue."""
import asyncio
from fractions import Fraction

from engine.harness import Harness
from harness.common import World, mem_places, place_names, run_async

NAMES = ["a", "b"]
QUEUES = ["q1", "q2"]


def h11_router(S, n_routers=2, regs=2):
    """Routers with arbitrary (name, queue) registrations incl. overrides, included into workers."""
    from repid import Connection, InMemoryMessageBroker, Router, Worker
    from repid.converter import BasicConverter

    conn = Connection(InMemoryMessageBroker())
    routers = []
    model = []          # per router: dict name -> (queue, marker)
    marker = [0]

    def register(router, mdl, name, queue):
        marker[0] += 1
        mk = marker[0]

        async def fn():
            return mk
        fn.__name__ = name
        router.actor(fn, name=name, queue=queue, converter=BasicConverter)
        mdl[name] = (queue, fn)

    for r in range(n_routers):
        router = Router()
        mdl = {}
        k = S.pick(f"regs{r}", regs + 1)
        for j in range(k):
            register(router, mdl, NAMES[S.pick(f"name{r}_{j}", 2)], QUEUES[S.pick(f"queue{r}_{j}", 2)])
        routers.append(router)
        model.append(mdl)

    def expect(mdls):
        actors = {}
        for m in mdls:
            actors.update(m)
        tbq = {}
        for name, (queue, fn) in actors.items():
            tbq.setdefault(queue, set()).add(name)
        return actors, tbq

    def check_router(label, router, mdls):
        actors, tbq = expect(mdls)
        S.check(label + ":actor-names-are-the-union", set(router.actors) == set(actors), info=f"{sorted(router.actors)} vs {sorted(actors)}")
        for name, (queue, fn) in actors.items():
            if name in router.actors:
                a = router.actors[name]
                S.check(label + ":last-registration-wins", a.fn is fn and a.queue == queue, info=f"{name}: queue {a.queue}, expected {queue}")
        got = {q: set(t) for q, t in router.topics_by_queue.items()}   # an empty topic set would mean "no filter"
        S.check(label + ":topics-by-queue-follow-the-winning-registrations", got == tbq, info=f"{got} vs {tbq}")

    for i, (router, mdl) in enumerate(zip(routers, model)):
        check_router(f"router{i}", router, [mdl])
    w_all = Worker(routers=routers, handle_signals=[], _connection=conn)
    check_router("worker-of-all", w_all, model)
    # registering further actors on the worker must not leak into the included routers
    extra = {}
    register(w_all, extra, "c", QUEUES[S.pick("extra_queue", 2)])
    check_router("worker-after-own-registration", w_all, model + [extra])
    for i, (router, mdl) in enumerate(zip(routers, model)):
        check_router(f"router{i}-after-inclusion", router, [mdl])
    w_first = Worker(routers=routers[:1], handle_signals=[], _connection=conn)
    check_router("worker-of-first-router-built-later", w_first, model[:1])
    S.cover("routers-checked")


def h11_worker(S, n_msgs=3, backend="mem"):
    """A shared queue with own and foreign messages: only own ones run, foreign ones stay available, untouched."""
    from repid import Job, Router, Worker
    from repid.converter import BasicConverter

    # service A: ping@shared, report@a_private ; service B: report@shared (run or not)
    kinds = []
    for i in range(n_msgs):
        kinds.append(["ping@shared", "report@shared", "report@a_private", "unknown@shared", "ping_extra@shared"][S.pick(f"msg{i}", 5)])
    run_b = S.flag("service_b_runs")
    ran = []
    out = {}

    async def main(loop):
        w = World(backend=backend)
        await w.open(queues=("shared", "a_private"), record=True)
        ra = Router()

        @ra.actor(name="ping", queue="shared", converter=BasicConverter)
        async def a_ping(i: int):
            ran.append(("A.ping", i))

        @ra.actor(name="report", queue="a_private", converter=BasicConverter)
        async def a_report(i: int):
            ran.append(("A.report", i))

        rb = Router()

        @rb.actor(name="report", queue="shared", converter=BasicConverter)
        async def b_report(i: int):
            ran.append(("B.report", i))

        before = {}
        for i, kd in enumerate(kinds):
            name, queue = kd.split("@")
            key, _, params = await Job(name, queue=queue, args={"i": i}, id_=f"m{i}", _connection=w.conn).enqueue()
            before[f"m{i}"] = params
        w.rec.calls.clear()
        wa = Worker(routers=[ra], handle_signals=[], _connection=w.conn, graceful_shutdown_time=1.0, tasks_limit=2)
        tasks = [asyncio.create_task(wa.run())]
        if run_b:
            wb = Worker(routers=[rb], handle_signals=[], _connection=w.conn, graceful_shutdown_time=1.0, tasks_limit=2)
            tasks.append(asyncio.create_task(wb.run()))
        await asyncio.sleep(Fraction(3, 10) if backend == "mem" else Fraction(3, 2))
        out["alive"] = [not t.done() for t in tasks]
        out["task_errors"] = [repr(t.exception()) for t in tasks if t.done() and not t.cancelled() and t.exception()]
        for t in tasks:
            t.cancel()
        await asyncio.gather(*tasks, return_exceptions=True)
        await asyncio.sleep(Fraction(1, 100) if backend == "mem" else Fraction(1, 2))
        out["places"] = {**{k: v for k, v in w.places("shared").items()}, **{k: v for k, v in w.places("a_private").items()}}
        out["before"] = before
        out["ops"] = {f"m{i}": [c["op"] for c in w.rec.calls if c["id"] == f"m{i}"] for i in range(n_msgs)}

    run_async(main)
    S.cover("workers-ran")
    S.check("worker-keeps-running-next-to-foreign-messages", all(out["alive"]), info=f"{kinds}: {out['task_errors']}")
    for i, kd in enumerate(kinds):
        mid = f"m{i}"
        owner = {"ping@shared": "A.ping", "report@a_private": "A.report", "report@shared": "B.report" if run_b else None,
                 "unknown@shared": None, "ping_extra@shared": None}[kd]
        execs = [who for who, j in ran if j == i]
        if owner is None:
            S.cover("foreign-message")
            S.check("foreign-message-is-never-executed", execs == [], info=f"{kd} executed by {execs}")
            pl = out["places"].get(mid, [])
            S.check("foreign-message-stays-available", [p[0] for p in pl] == ["waiting"], info=f"{kd}: {[p[0] for p in pl]} ops {out['ops'][mid]}")
            if [p[0] for p in pl] == ["waiting"]:
                S.check("foreign-message-untouched", pl[0][1].parameters == out["before"][mid])
            S.check("foreign-message-not-disposed", not [o for o in out["ops"][mid] if o in ("ack", "nack", "requeue")], info=str(out["ops"][mid]))
        else:
            S.check("job-runs-exactly-its-actor-once", execs == [owner], info=f"{kd} executed by {execs}, expected [{owner}]")


HARNESSES = [
    Harness(name="H11-router", scenario=h11_router, workers=16, budget_s=900,
            params={"quick": {"n_routers": 2, "regs": 2}, "thorough": {"n_routers": 3, "regs": 2}},
            bounds={"routers": "2 (quick) / 3 (thorough), each with 0..2 registrations over names {a, b} and queues {q1, q2} (overrides included)",
                    "then": "a worker of all routers, one more registration on that worker, a second worker of the first router"},
            functions=["router.py:Router.actor", "router.py:Router.include_router", "worker.py:Worker.__init__"], covers=["routers-checked"]),
    Harness(name="H11-worker", scenario=h11_worker, workers=16, budget_s=900,
            params={"quick": {"n_msgs": 3}, "thorough": {"n_msgs": 4}},
            bounds={"messages": "3 (quick) / 4 (thorough), each one of ping@shared, report@shared, report@a_private, unknown@shared, ping_extra@shared (a topic that extends an own topic's name)",
                    "workers": "service A (ping@shared, report@a_private) always; service B (report@shared) running or not"},
            functions=["worker.py:Worker.run", "_runner.py:_Runner.run_one_queue", "connections/in_memory/consumer.py:_InMemoryConsumer.consume"],
            covers=["workers-ran", "foreign-message"]),
]
HARNESSES.append(
    Harness(name="H11-worker-redis", scenario=h11_worker, workers=16, budget_s=900,
            params={"quick": {"n_msgs": 2, "backend": "redis"}, "thorough": {"n_msgs": 3, "backend": "redis"}},
            bounds={"as H11-worker": "on the real Redis broker/consumer (topic prefix filter, prefetch buffer) over the fake server"},
            functions=["connections/redis/consumer.py:_RedisConsumer.backgroud_consume"], covers=["workers-ran", "foreign-message"],
            stubs=["fake Redis server"]))
ASSUMPTIONS = ["in-memory broker; Redis prefix filter exactness is proved under C07 (H07-names-injective: topic-prefix-filter-exact); RabbitMQ reject-requeue loop is server behaviour"]
