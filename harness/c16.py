"""C16 - message handles are single-use and respect their category."""
import asyncio

from engine.harness import Harness
from engine.symx import all_of, any_of, implies, neg
from engine.vtime import PinnedClock, real_timedelta
from harness.common import SEC, T0, Recorder, World, mem_places, mk_actor, place_names, run_async

CALLS = ["ack", "nack", "reject", "reschedule", "retry", "force_retry"]
BROKER_OP = {"ack": "ack", "nack": "nack", "reject": "reject", "reschedule": "requeue", "retry": "requeue", "force_retry": "requeue"}
CATS = ["NORMAL", "DELAYED", "DEAD"]


def h16_handle(S, script_len=3, dependency=False):
    import repid.data._parameters as P
    from repid._utils import _NoAction
    from repid.connections.in_memory.utils import Message as MemMessage
    from repid.data._key import RoutingKey
    from repid.dependencies.message_dependency import MessageDependency
    from repid.dependencies.resolver_context import ResolverContext
    from repid.message import Message, MessageCategory

    cat = CATS[S.pick("category", 3)] if not dependency else "NORMAL"
    k = S.int("already_tried", 0, None)
    N = S.int("max_amount", 0, None)
    script = [CALLS[S.pick(f"call{i}", len(CALLS))] for i in range(script_len)]
    S.tag("category", cat)
    S.tag("handle", "MessageDependency" if dependency else "Message")
    S.note("script", script)
    # the broker may fail the first call that reaches it (connection hiccup): the handle then stays as it was
    broker_hiccup = (not dependency) and S.flag("first_broker_call_fails")
    log = []

    async def fn():
        return None

    actor = mk_actor(fn, retry_policy=lambda retry_number=1: real_timedelta(seconds=3))

    async def main(loop):
        w = World()
        await w.open(record=False)
        key = RoutingKey(topic="job", queue="default", id_="m1")
        params = P.Parameters(retries=P.RetriesProperties(max_amount=N, already_tried=k), timestamp=P.datetime.now())
        w.broker.queues["default"].processing.add(MemMessage(key, "pl", params))
        if broker_hiccup:
            state = {"failed": False}
            for name in ("ack", "nack", "reject", "requeue"):
                def mk(orig):
                    async def flaky(*a, **k):
                        if not state["failed"]:
                            state["failed"] = True
                            raise ConnectionError("broker unreachable")
                        return await orig(*a, **k)
                    return flaky
                setattr(w.broker, name, mk(getattr(w.broker, name)))
        rec = Recorder(w.broker)
        if dependency:
            m = MessageDependency.construct_as_dependency(context=ResolverContext(
                message_key=key, message_raw_payload="pl", message_parameters=params, connection=w.conn,
                actor_data=actor, actor_processing_started_when=0))
        else:
            m = Message(key=key, raw_payload="pl", parameters=params, _connection=w.conn, _category=MessageCategory[cat])
        for c in script:
            before = len(rec.calls)
            try:
                await getattr(m, c)()
                outcome = "returned"
            except ValueError as e:
                outcome = "refused"
            except ConnectionError:
                outcome = "broker-error"
            except _NoAction:
                outcome = "noaction"
            log.append((c, outcome, [x["op"] for x in rec.calls[before:]], m.read_only))

    run_async(main, clock=PinnedClock(T0))
    # handle automaton -----------------------------------------------------------------
    used = False
    for c, outcome, ops, ro in log:
        wrong_cat = c in ("nack", "retry", "force_retry") and cat != "NORMAL"
        no_budget = c == "retry" and not bool(k < N)
        if outcome == "broker-error":
            # the action did not happen: the message is still held, the handle still usable, its retry state as it was
            S.cover("broker-error")
            S.check("failed-broker-call-leaves-the-handle-usable", ro is False and not used, info=f"{script}: after a failed {c} read_only={ro}")
            continue
        if wrong_cat or used or no_budget:
            S.cover("refused")
            S.check("refused-call-raises", outcome == "refused", info=f"{script} on {cat}: {c} -> {outcome}")
            S.check("refused-call-touches-nothing-on-the-broker", ops == [], info=f"{script} on {cat}: {c} caused {ops}")
            S.check("refusal-keeps-the-handle-state", ro == used, info=f"{script}: after refused {c} read_only={ro}")
        else:
            S.cover("accepted")
            S.check("first-permitted-action-succeeds", outcome == ("noaction" if dependency else "returned"),
                    info=f"{script} on {cat}: {c} -> {outcome}")
            S.check("exactly-one-broker-call", ops == [BROKER_OP[c]], info=f"{script}: {c} caused {ops}")
            S.check("handle-becomes-single-use", ro is True)
            used = True


def h16_queue_iteration(S):
    """Messages iterated from a queue that is bound to an explicit connection act on that connection's broker - whatever the
    thread's default connection is (another one, or none)."""
    from repid import Connection, InMemoryMessageBroker, Queue, Repid
    import repid.data._parameters as P
    from repid.data._key import RoutingKey
    from repid.message import MessageCategory

    action = ["ack", "nack", "reject", "reschedule", "retry", "force_retry"][S.pick("action", 6)]
    default = ["another-connection", "none"][S.pick("thread_default_connection", 2)]
    S.tag("action", action)
    out = {}

    async def main(loop):
        bx, bd = InMemoryMessageBroker(), InMemoryMessageBroker()
        cx, cd = Connection(bx), Connection(bd)
        await cx.connect()
        await bx.queue_declare("default")
        await bd.queue_declare("default")
        rx, rd = Recorder(bx), Recorder(bd)
        await bx.enqueue(RoutingKey(topic="job", queue="default", id_="m1"), "pl",
                         P.Parameters(retries=P.RetriesProperties(max_amount=2), timestamp=P.datetime.now()))
        rx.calls.clear()
        rep = Repid(cd)
        if default == "another-connection":
            await rep.magic_connect()
        else:
            await rep.magic_connect()
            await rep.magic_disconnect()
        try:
            n = 0
            try:
                async for msg in Queue("default", _connection=cx).get_messages():
                    n += 1
                    try:
                        await getattr(msg, action)()
                        out["outcome"] = "returned"
                    except Exception as e:  # noqa: BLE001
                        out["outcome"] = f"{type(e).__name__}: {e}"
                    try:
                        await msg.ack()
                        out["second"] = "accepted"
                    except ValueError:
                        out["second"] = "refused"
                    break
            except ValueError as e:
                out["outcome"] = f"iteration failed: {e}"
            out["n"] = n
        finally:
            if default == "another-connection":
                await rep.magic_disconnect()
        out["x_ops"] = [c["op"] for c in rx.calls]
        out["d_ops"] = [c["op"] for c in rd.calls]
        out["places"] = place_names(mem_places(bx), "m1")

    run_async(main, clock=PinnedClock(T0))
    S.cover("queue-iterated")
    S.check("iteration-yields-the-message", out.get("n") == 1, info=str(out))
    S.check("action-succeeds", out.get("outcome") == "returned", info=str(out.get("outcome")))
    S.check("action-reaches-the-queues-own-broker", out["x_ops"] == [BROKER_OP[action]], info=f"own broker saw {out['x_ops']}, the default connection's broker saw {out['d_ops']}")
    S.check("no-other-broker-is-touched", out["d_ops"] == [], info=str(out["d_ops"]))
    S.check("second-action-refused", out.get("second") == "refused", info=str(out.get("second")))
    S.check("message-left-the-holder", "processing" not in out["places"], info=str(out["places"]))


def h16_redis_chain(S):
    """Message handles over Redis across deliveries: the counter a retry wrote is what the next delivery's handle sees."""
    from fakes import redis as fr
    from repid import Connection
    import repid.data._parameters as P
    from repid.data._key import RoutingKey
    from repid.message import Message, MessageCategory
    from harness.common import SEC

    N = S.pick("max_amount", 3)
    forced = S.flag("first_answer_is_force_retry")
    clock = PinnedClock(T0)
    log = []

    async def main(loop):
        srv = fr.FakeServer(clock=lambda: clock.time())
        br = fr.mk_broker(srv)
        conn = Connection(br)
        key = RoutingKey(topic="job", queue="default", id_="m1")
        await br.enqueue(key, "pl", P.Parameters(retries=P.RetriesProperties(max_amount=N, already_tried=0), timestamp=P.datetime.now()))
        cons = br.get_consumer("default", ["job"])
        cons.POLLING_WAIT = 0
        for delivery in range(N + 3):
            got = await cons.consume_or_none()
            if got is None:
                log.append(("nothing-delivered", delivery))
                break
            m = Message(key=got[0], raw_payload=got[1], parameters=got[2], _connection=conn, _category=MessageCategory.NORMAL)
            seen = got[2].retries.already_tried
            try:
                if forced and delivery == 0:
                    await m.force_retry(real_timedelta(0))
                    log.append(("force_retry-accepted", seen))
                else:
                    await m.retry(real_timedelta(0))
                    log.append(("retry-accepted", seen))
            except ValueError:
                log.append(("retry-refused", seen))
                await m.nack()
                break
            clock.advance(2 * SEC)

    run_async(main, clock=clock)
    S.cover("redis-chain")
    want = [("force_retry-accepted" if (forced and i == 0) else "retry-accepted", i) for i in range(N)] + \
           ([("force_retry-accepted", 0)] if forced and N == 0 else [])
    # counters seen by successive deliveries grow by one; retry() is accepted while counter < N and refused afterwards
    seen = [x[1] for x in log]
    S.check("each-delivery-sees-the-counter-the-previous-answer-wrote", seen == list(range(len(seen))), info=str(log))
    S.check("retry-refused-exactly-when-the-budget-is-spent", log[-1][0] == "retry-refused" and log[-1][1] >= N, info=f"N={N}: {log}")


PRE = ["callback", "set_result", "set_exception", "raising_callback"]


def h16_eager(S, pre_len=3):
    """Inside a real actor_run: callbacks run in registration order, the store takes the place of the latest set_*."""
    import repid.data._parameters as P
    from repid import MessageDependency
    from repid._processor import _Processor
    from repid.connections.in_memory.utils import Message as MemMessage
    from repid.converter import BasicConverter
    from repid.data._key import RoutingKey

    n = S.pick("n_pre", pre_len + 1)
    pre = [PRE[S.pick(f"pre{i}", len(PRE))] for i in range(n)]
    action = CALLS[S.pick("eager", len(CALLS))]
    guarded = S.flag("actor_catches_Exception_around_the_response")
    # the whole _Processor.process() around the actor, for a one-off or a periodic job: nothing else touches the broker afterwards
    # retry() with the budget spent is refused (ValueError) and leaves everything untouched; the actor then answers with nack
    refused_first = action == "retry" and S.flag("retry_refused_first_then_nack")
    store_fails = S.flag("result_store_fails")            # the failure text looks like JSON (braces)
    via_process = S.flag("through_the_processor")
    periodic = S.flag("periodic_job") if via_process else False
    S.note("script", pre + [action])
    order = []
    after = []
    out = {}

    async def main(loop):
        w = World(results=True)
        await w.open(record=True)
        orig_store = w.rb.store_bucket

        async def store(id_, payload):
            order.append(("STORE", payload.success, payload.data, payload.exception, payload.started_when, payload.finished_when))
            if store_fails:
                raise ConnectionError('result storage answered {"error": "down", "retry": {"after": 5}}')
            return await orig_store(id_, payload)

        w.rb.store_bucket = store
        key = RoutingKey(topic="job", queue="default", id_="m1")
        params = P.Parameters(retries=P.RetriesProperties(max_amount=0 if refused_first else 3, already_tried=0),
                              delay=P.DelayProperties(defer_by=real_timedelta(hours=1)) if periodic else P.DelayProperties(),
                              result=P.ResultProperties(id_="res1", ttl=None), timestamp=P.datetime.now())
        w.broker.queues["default"].processing.add(MemMessage(key, "", params))

        async def job(m: MessageDependency):
            for idx, p in enumerate(pre):
                if p == "callback":
                    async def cb(idx=idx):
                        order.append(("cb", idx))
                    m.add_callback(cb)
                elif p == "raising_callback":
                    async def bad(idx=idx):
                        order.append(("cb", idx))
                        raise RuntimeError("callback {0} failed: {'code': 7}")
                    m.add_callback(bad)
                elif p == "set_result":
                    m.set_result({"v": idx})
                else:
                    m.set_exception(KeyError(f"e{idx}"))
            if refused_first:
                try:
                    await m.retry()
                except ValueError:
                    order.append(("refused",))
                    await m.nack()
            elif guarded:
                try:
                    await getattr(m, action)()
                except Exception:  # noqa: BLE001  (a broad handler must not swallow the eager-response signal)
                    after.append("handler-ran")
            else:
                await getattr(m, action)()
            after.append("ran-after-eager-response")

        actor = mk_actor(job, converter=BasicConverter, retry_policy=lambda retry_number=1: real_timedelta(seconds=3))
        proc = _Processor(w.conn)
        if via_process:
            await proc.process(actor, key, "", params)
            res = None
        else:
            res = await proc.actor_run(actor, key, params, "", w.conn)
        out["res"] = res
        out["calls"] = [c["op"] for c in w.rec.calls]
        out["bucket"] = await w.rb.get_bucket("res1")

    run_async(main, clock=PinnedClock(T0))
    res = out["res"]
    S.cover("eager-" + action)
    S.check("rest-of-actor-body-not-run", after == [])
    if res is not None:
        S.check("reported-as-done", res.reporting_done is True)
    S.check("one-broker-action", out["calls"] == ["nack" if refused_first else BROKER_OP[action]], info=str(out["calls"]))
    if refused_first:
        S.cover("refused-then-fallback")
        S.check("refused-call-leaves-callbacks-and-store-untouched", order[:1] == [("refused",)], info=f"before the refusal was seen: {order[:order.index(('refused',))] if ('refused',) in order else order}")
        order[:] = [x for x in order if x != ("refused",)]
    # expected order: callbacks in registration order, the store where the latest set_* call stood
    sets = [i for i, p in enumerate(pre) if p in ("set_result", "set_exception")]
    expected = []
    for i, p in enumerate(pre):
        if p in ("callback", "raising_callback"):
            expected.append(("cb", i))
        elif sets and i == sets[-1]:
            expected.append("STORE")
    got = [x if x[0] == "cb" else "STORE" for x in order]
    S.check("callbacks-in-registration-order-store-at-latest-set", got == expected, info=f"{pre}: got {got}, expected {expected}")
    if sets:
        S.cover("result-set")
        last = pre[sets[-1]]
        st = [x for x in order if x[0] == "STORE"]
        S.check("exactly-one-store", len(st) == 1, info=str(st))
        if len(st) == 1 and via_process:
            # both instants are readings of the same clock (the processor's wall clock in ns)
            S.check("started-not-after-finished", st[0][4] <= st[0][5], info=f"started_when={st[0][4]} finished_when={st[0][5]}")
        if len(st) == 1:
            if last == "set_result":
                S.check("stored-the-latest-result", st[0][1] is True and st[0][2] == '{"v":%d}' % sets[-1], info=str(st))
                if res is not None:
                    S.check("outcome-reports-latest", res.success is True and res.data == '{"v":%d}' % sets[-1])
            else:
                S.check("stored-the-latest-exception", st[0][1] is False and st[0][3] == "KeyError", info=str(st))
                if res is not None:
                    S.check("outcome-reports-latest", res.success is False and isinstance(res.exception, KeyError))
    else:
        S.check("nothing-stored-without-set", not [x for x in order if x[0] == "STORE"])


HARNESSES = [
    Harness(name="H16-redis-chain", scenario=h16_redis_chain,
            bounds={"budget": "0..2", "history": "deliver, answer with retry() (the first answer possibly force_retry()), deliver again, ... until retry() is refused", "broker": "Redis on the fake server"},
            functions=["message.py:Message.retry", "connections/redis/message_broker.py:RedisMessageBroker.requeue"], covers=["redis-chain"], stubs=["fake Redis server"]),
    Harness(name="H16-queue-iteration", scenario=h16_queue_iteration,
            bounds={"message": "one waiting message, iterated with Queue(name, _connection=X).get_messages()", "action": "each of the six",
                    "thread's default connection": "another connection / none"},
            functions=["queue.py:Queue.get_messages", "message.py:Message.ack"], covers=["queue-iterated"]),
    Harness(name="H16-handle-message", scenario=h16_handle, workers=16,
            params={"quick": {"script_len": 3}, "thorough": {"script_len": 4}},
            bounds={"script": "3 (quick) / 4 (thorough) calls from {ack, nack, reject, reschedule, retry, force_retry}", "category": "NORMAL / DELAYED / DEAD",
                    "retry state": "any already_tried, max_amount >= 0 (also k > N)"},
            functions=["message.py:Message.ack", "message.py:Message.retry"], covers=["accepted", "refused"]),
    Harness(name="H16-handle-dependency", scenario=h16_handle, workers=16,
            params={"quick": {"script_len": 3, "dependency": True}, "thorough": {"script_len": 4, "dependency": True}},
            bounds={"as H16-handle-message": "on a MessageDependency (eager responses)"},
            functions=["dependencies/message_dependency.py:MessageDependency.ack"], covers=["accepted", "refused"]),
    Harness(name="H16-eager-order", scenario=h16_eager, workers=16,
            params={"quick": {"pre_len": 3}, "thorough": {"pre_len": 4}},
            bounds={"actor script": "0..3 (quick) / 0..4 (thorough) calls from {add_callback, add_callback of a raising callback, set_result, set_exception} followed by one of the six eager responses, bare or inside try/except Exception"},
            functions=["_processor.py:_Processor.actor_run", "dependencies/message_dependency.py:MessageDependency.set_result"],
            covers=["result-set"] + ["eager-" + c for c in CALLS]),
]
ASSUMPTIONS = ["scripts are discrete: enumerated by the solver; the retry counters are symbolic integers"]

from engine.harness import borrowed  # noqa: E402
HARNESSES.append(borrowed("c02", "H02-worker", "H16-worker-eager"))   # "the rest of the actor body does not run" after an answer given in a dependency
HARNESSES.append(borrowed("c02", "H02-rabbit-slow-settle", "H16-rabbit-slow-settle"))   # one settle frame per delivery, whatever is cancelled
HARNESSES.append(borrowed("c14", "H14-rabbit", "H16-rabbit-redelivery"))               # an action on a redelivered copy reaches the broker
HARNESSES.append(borrowed("c02", "H02-rabbit-retry", "H16-rabbit-retry"))   # retry() through the message API on RabbitMQ settles the handle's own delivery
