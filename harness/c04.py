"""C04 - retries are bounded, counted and backed off as configured."""
from __future__ import annotations

from engine import vtime
from engine.harness import Harness
from engine.symx import all_of, any_of, implies, neg
from engine.vtime import PinnedClock, real_timedelta
from harness.common import SEC, Y1970, Y2100, Recorder, mem_places, mk_actor, place_names, run_async, us_of
from harness.steps import HUNDRED_Y, process_step


def h04_step(S):
    o = process_step(S)
    k, N, fail = o.k, o.N, o.fail
    ops = [c["op"] for c in o.calls]
    S.check("actor-ran-exactly-once", len(o.runs) == 1)
    S.check("exactly-one-broker-action", len(ops) == 1, info=str(ops))
    if not ops:
        return
    call = o.calls[0]
    if fail and k < N:
        S.cover("retry")
        S.check("retry-is-a-requeue", call["op"] == "requeue")
        if call["op"] != "requeue":
            return
        newp = call["args"][2]
        S.check("counter-plus-one", newp.retries.already_tried == k + 1)
        S.check("budget-unchanged", newp.retries.max_amount == N)
        S.check("counter-within-budget", newp.retries.already_tried <= N)
        S.check("policy-asked-for-this-retry-number", len(o.policy_calls) == 1 and o.policy_calls[0] == k + 1)
        T = us_of(newp.delay.next_execution_time)
        S.check("due-is-failure-time-plus-backoff", T == o.now + o.backoff)
        S.check("timestamp-kept-on-retry", us_of(newp.timestamp) == o.ts)
        S.check("same-id", call["args"][0].id_ == "m1")
        pl = o.places
        S.check("one-copy-delayed", place_names(pl, "m1") == ["delayed"])
        # delivery only once the back-off has elapsed (counted from the failure)
        got = o.delivered is not None
        listen = o.now + o.delta
        if got:
            S.cover("retry-delivered")
            S.check("never-delivered-before-backoff", listen >= T)
            S.check("delivered-counter", o.delivered[2].retries.already_tried == k + 1)
        else:
            S.cover("retry-held-back")
            S.check("held-back-only-while-not-due", listen <= T)
    elif o.recurring:
        S.cover("reschedule")
        S.check("recurring-is-rescheduled", call["op"] == "requeue")
        if call["op"] == "requeue":
            S.check("rescheduled-counter-reset", call["args"][2].retries.already_tried == 0)
            S.check("rescheduled-budget-kept", call["args"][2].retries.max_amount == N)
    elif fail:
        S.cover("dead-letter")
        S.check("exhausted-is-nack", call["op"] == "nack")
        S.check("dead-lettered", place_names(o.places, "m1") == ["dead"])
        S.check("no-policy-call-when-exhausted", len(o.policy_calls) == 0)
        S.check("dead-not-delivered", o.delivered is None)
    else:
        S.cover("ack")
        S.check("success-is-ack", call["op"] == "ack")
        S.check("acked-gone", place_names(o.places, "m1") == [])
        S.check("acked-not-delivered", o.delivered is None)


def h04_msgapi(S):
    """Message.retry / force_retry / MessageDependency.retry with symbolic counters."""
    import repid.data._parameters as P
    from repid import Connection, InMemoryMessageBroker
    from repid.connections.in_memory.utils import Message as MemMessage
    from repid.data._key import RoutingKey
    from repid.dependencies.message_dependency import MessageDependency
    from repid.dependencies.resolver_context import ResolverContext
    from repid.message import Message, MessageCategory
    from repid._utils import _NoAction

    k = S.int("already_tried", 0, None)
    N = S.int("max_amount", 0, None)
    which = S.pick("api", 4)   # 0 Message.retry 1 Message.force_retry 2 Dependency.retry 3 Dependency.force_retry
    given = S.flag("next_retry_given")
    b = S.int("next_retry", 0, HUNDRED_Y)
    pol_b = S.int("policy_backoff", 0, HUNDRED_Y)
    now = S.int("now", Y1970 + HUNDRED_Y, Y2100)
    S.tag("api", ["Message.retry", "Message.force_retry", "MessageDependency.retry", "MessageDependency.force_retry"][which])
    params = P.Parameters(retries=P.RetriesProperties(max_amount=N, already_tried=k),
                          timestamp=S.datetime_us(now - 5 * SEC))
    key = RoutingKey(topic="job", queue="default", id_="m1")
    clock = PinnedClock(now)
    out = {}
    policy_calls = []

    def policy(retry_number=1):
        policy_calls.append(retry_number)
        return S.timedelta_us(pol_b)

    async def fn():
        return None

    actor = mk_actor(fn, retry_policy=policy)

    async def main(loop):
        broker = InMemoryMessageBroker()
        conn = Connection(broker)
        await conn.connect()
        await broker.queue_declare("default")
        broker.queues["default"].processing.add(MemMessage(key, "pl", params))
        rec = Recorder(broker)
        if which < 2:
            m = Message(key=key, raw_payload="pl", parameters=params, _connection=conn)
        else:
            m = MessageDependency.construct_as_dependency(context=ResolverContext(
                message_key=key, message_raw_payload="pl", message_parameters=params, connection=conn,
                actor_data=actor, actor_processing_started_when=0))
        call = m.retry if which in (0, 2) else m.force_retry
        arg = S.timedelta_us(b) if given else None
        try:
            await call(arg)
            out["r"] = "returned"
        except ValueError as e:
            out["r"] = "refused"
            out["msg"] = str(e)
        except _NoAction as e:
            out["r"] = "noaction"
            out["na"] = e
        out["calls"] = list(rec.calls)
        out["places"] = mem_places(broker)
        out["read_only"] = m.read_only
        # a refused handle must stay usable: reject works afterwards
        if out["r"] == "refused":
            try:
                await m.reject()
                out["after"] = "ok"
            except _NoAction:
                out["after"] = "ok"
            except ValueError:
                out["after"] = "dead-handle"
            out["places2"] = mem_places(broker)

    run_async(main, clock=clock)
    budget_left = k < N
    forced = which in (1, 3)
    if forced or budget_left:
        S.cover("retried")
        S.check("accepted", out["r"] == ("returned" if which < 2 else "noaction"))
        ops = [c["op"] for c in out["calls"]]
        S.check("one-requeue", ops == ["requeue"], info=str(ops))
        if ops == ["requeue"]:
            newp = out["calls"][0]["args"][2]
            S.check("counter-plus-one", newp.retries.already_tried == k + 1)
            S.check("payload-kept", out["calls"][0]["args"][1] == "pl")
            want = b if given else (pol_b if which >= 2 else 0)
            S.check("due-is-now-plus-delay", us_of(newp.delay.next_execution_time) == now + want)
            if which >= 2 and not given:
                S.check("policy-asked-for-next-number", policy_calls == [k + 1] or
                        (len(policy_calls) == 1 and bool(policy_calls[0] == k + 1)))
            if not forced:
                S.check("counter-within-budget", newp.retries.already_tried <= N)
        S.check("handle-consumed", out["read_only"] is True)
    else:
        S.cover("refused")
        S.check("refused-when-budget-spent", out["r"] == "refused")
        S.check("no-broker-call-on-refusal", [c["op"] for c in out["calls"]] == [] or out["r"] != "refused",
                info=str([c["op"] for c in out["calls"]]))
        S.check("handle-still-usable", out.get("after") == "ok")
        if out.get("after") == "ok":
            S.check("reject-after-refusal-returns-message", place_names(out["places2"], "m1") == ["waiting"])


def h04_chain(S, max_n=2):
    """Reachability complement: full Worker.run() over a retry chain with symbolic budget and outcomes."""
    import asyncio
    from repid import Connection, InMemoryMessageBroker, Job, Router, Worker
    from repid.converter import BasicConverter

    N = S.int("retries", 0, max_n)
    fails = [S.bool(f"fail{i}") for i in range(max_n + 1)]
    # how an attempt fails: by raising, or by returning something the converter cannot encode
    by_return = S.flag("failures_are_unencodable_return_values")
    runs = []
    out = {}

    async def main(loop):
        broker = InMemoryMessageBroker()
        conn = Connection(broker)
        await conn.connect()
        r = Router()

        @r.actor(converter=BasicConverter, retry_policy=lambda retry_number=1: real_timedelta(milliseconds=100 * retry_number))
        async def job():
            i = len(runs)
            runs.append(loop.time())
            if fails[i]:
                if by_return:
                    return object()
                raise ValueError("x")

        j = Job("job", retries=N, _connection=conn, id_="m1")
        await j.queue.declare()
        await j.enqueue()
        w = Worker(routers=[r], handle_signals=[], _connection=conn, graceful_shutdown_time=1.0)
        task = asyncio.create_task(w.run())
        await asyncio.sleep(6)
        task.cancel()
        try:
            await task
        except asyncio.CancelledError:
            pass
        out["places"] = mem_places(broker)

    run_async(main)
    n = len(runs)
    # oracle: executions = index of first success + 1, capped at N+1
    exp = None
    for i in range(max_n + 1):
        if i > N if isinstance(N, int) else bool(N < i):
            break
        exp = i + 1
        if not fails[i]:
            break
    S.cover("chain-%d" % n)
    S.check("executions-match-first-success-or-budget", n == exp, info=f"runs={n} expected={exp}")
    last_failed = bool(fails[n - 1]) if n else False
    names = place_names(out["places"], "m1")
    if last_failed:
        S.check("exhausted-chain-ends-dead", names == ["dead"], info=str(names))
    else:
        S.check("successful-chain-ends-acked", names == [], info=str(names))
    # back-off respected: k-th retry starts >= k seconds after the failure before it
    for i in range(1, n):
        S.check("retry-not-before-backoff", runs[i] - runs[i - 1] >= i / 10, info=str(runs))


HARNESSES = [
    Harness(
        name="H04-step", scenario=h04_step, workers=8,
        bounds={"already_tried k, max_amount N": "any integers 0 <= k <= N (k <= 1e5 under the default policy)",
                "policy": "default factory with any parameters (min<=max<=1e9 s, multiplier<=1e9, max_exponent<=1e5) or a user policy returning any duration in [0, 100 y]",
                "clock / timestamps": "any microsecond in 2070..2100 / 1970..2100", "listen instant": "failure time + [0, 100 y]"},
        functions=["_processor.py:_Processor.process", "_processor.py:_Processor.report_to_broker",
                   "data/_parameters.py:Parameters._prepare_retry", "connections/in_memory/message_broker.py:InMemoryMessageBroker.requeue",
                   "connections/in_memory/consumer.py:_InMemoryConsumer.consume"],
        covers=["retry", "reschedule", "dead-letter", "ack", "retry-delivered", "retry-held-back"],
        outside=["cron recurrence", "RabbitMQ delivery time (server-side TTL)", "timeout as the failure cause (covered by C02)"],
        stubs=["state constructed directly: message placed in the in-memory broker's processing set"],
    ),
    Harness(
        name="H04-msgapi", scenario=h04_msgapi, workers=4,
        bounds={"already_tried, max_amount": "any integers >= 0 (also k > N)", "next_retry / policy value": "[0, 100 y]"},
        functions=["message.py:Message.retry", "message.py:Message.force_retry",
                   "dependencies/message_dependency.py:MessageDependency.retry"],
        covers=["retried", "refused"],
    ),
    Harness(
        name="H04-chain", scenario=h04_chain, workers=8,
        params={"quick": {"max_n": 2}, "thorough": {"max_n": 3}},
        bounds={"retries N": "[0, 2] quick / [0, 3] thorough", "failure pattern": "any", "policy": "k*100 ms for retry k"},
        functions=["worker.py:Worker.run", "_runner.py:_Runner.run_one_queue"],
        outside=["N above the chain bound (covered inductively by H04-step)"],
    ),
]


def h04_mem_handback(S):
    """In-memory: a retry waiting for its back-off is looked at through the delayed category and handed back
    (Queue.get_messages(category=DELAYED) ... message.reject()): it is still not delivered before the back-off is over."""
    import asyncio
    import repid.data._parameters as P
    from repid.data._key import RoutingKey
    from repid.message import MessageCategory
    from harness.common import World, try_consume

    e = S.int("failed_at_us", Y1970 + 10**15, Y2100 - 10**15)
    backoff = S.int("backoff_us", 1, 40 * 86400 * SEC)
    look = S.int("inspected_after_us", 0, 40 * 86400 * SEC)
    wait = S.int("normal_consumer_after_us", 0, 80 * 86400 * SEC)
    S.assume(look <= wait)
    clock = PinnedClock(e)
    out = {}

    async def main(loop):
        w = World()
        await w.open(record=False)
        key = RoutingKey(topic="job", queue="default", id_="r1")
        params = P.Parameters(retries=P.RetriesProperties(max_amount=3), timestamp=S.datetime_us(e))
        await w.broker.enqueue(key, "p", params)
        c0 = w.broker.get_consumer("default", ["job"])
        await c0.start()
        got = await try_consume(c0)
        assert got is not None
        # the attempt failed: the worker's report requeues it with the policy's delay
        await w.broker.requeue(key, "p", params._prepare_retry(S.timedelta_us(backoff)))
        clock.set(e + look)
        dc = w.broker.get_consumer("default", ["job"], None, MessageCategory.DELAYED)
        await dc.start()
        seen = await try_consume(dc)
        out["seen"] = seen is not None
        if seen is not None:
            await w.broker.reject(seen[0])
        clock.set(e + wait)
        out["got"] = await try_consume(c0)

    run_async(main, clock=clock)
    if out["seen"]:
        S.cover("inspected-and-handed-back")
    if out["got"] is not None:
        S.cover("delivered")
        S.check("never-delivered-before-due", wait >= backoff, info="the retry was delivered to a normal consumer before its back-off was over")
        S.check("counter-grew-by-one", out["got"][2].retries.already_tried == 1)
    else:
        S.cover("held-back")
        S.check("not-forgotten-once-due", wait <= backoff + 2 * SEC, info="the back-off is over for more than two seconds and the retry is not delivered")



def h04_rabbit_crowded(S):
    """RabbitMQ: a retry waits for its back-off in the delayed queue while many other deferred messages are scheduled - as many as
    the queue was declared to hold, and a few more.  It still does not come back before its time."""
    import asyncio
    import repid.data._parameters as P
    from fakes import amqp as fa
    from repid.data._key import RoutingKey
    from harness.common import World, try_consume
    from pamqp import commands as spec

    extra = S.pick("messages_beyond_the_declared_capacity", 3)
    out = {}

    async def main(loop):
        w = World(backend="rabbit")
        await w.open(record=False)
        dq = w.srv.queues["default:delayed"]
        capacity = dq.arguments.get("x-max-length")
        out["capacity"] = capacity
        key = RoutingKey(topic="job", queue="default", id_="r1")
        now = P.datetime.now()
        params = P.Parameters(retries=P.RetriesProperties(max_amount=3, already_tried=1), timestamp=now,
                              delay=P.DelayProperties(next_execution_time=now + real_timedelta(hours=1)))
        await w.broker.enqueue(key, "p", params)                     # the retry, due in an hour
        # other producers schedule deferred jobs (published by the server-side stub directly: they only have to be there)
        n = (capacity if capacity is not None else 2) + extra
        for i in range(n):
            props = spec.Basic.Properties(message_id=f"filler{i}", headers={"topic": "other", "queue": "default"}, priority=5)
            w.srv.seq += 1
            w.srv.route("default:delayed", fa.QMsg(b"{}", props, "default:delayed", w.srv.seq), loop)
        cons = w.broker.get_consumer("default", ["job"])
        await cons.start()
        out["got"] = await try_consume(cons, timeout=1)
        out["where"] = sorted(qn for qn, q in w.srv.queues.items() if any(m.props.message_id == "r1" for m in q.ready))

    run_async(main, clock=PinnedClock(Y1970 + 10**15))
    S.cover("crowded-delayed-queue")
    S.check("never-delivered-before-due", out["got"] is None and out["where"] == ["default:delayed"],
            info=f"the delayed queue was declared with capacity {out['capacity']}; after that many (+{extra}) further deferred messages the retry "
                 f"is in {out['where']} and the normal consumer received {None if out['got'] is None else out['got'][0].id_}")



def h04_rabbit_peek(S):
    """RabbitMQ: while a worker executes an attempt, somebody on the same connection looks into another category of the queue
    (Queue.get_messages(category=DEAD)) and closes that consumer again: the attempt is not delivered a second time."""
    import asyncio
    from fractions import Fraction
    from repid import Job, Router, Worker
    from repid.converter import BasicConverter
    from repid.message import MessageCategory
    from harness.actors import counting_sleeper_fn
    from harness.common import World

    peek_at = [Fraction(1, 20), Fraction(3, 20)][S.pick("peek_during_attempt", 2)]
    runs = []
    out = {}

    async def main(loop):
        w = World(backend="rabbit")
        await w.open(record=False)
        r = Router()
        r.actor(name="job", converter=BasicConverter, retry_policy=lambda retry_number=1: real_timedelta(0))(counting_sleeper_fn(runs, Fraction(1, 10)))
        await Job("job", id_="m1", retries=1, _connection=w.conn).enqueue()
        worker = Worker(routers=[r], handle_signals=[], _connection=w.conn, graceful_shutdown_time=1.0, messages_limit=2, tasks_limit=2)
        task = asyncio.create_task(worker.run())
        await asyncio.sleep(peek_at)
        peek = w.broker.get_consumer("default", ["job"], None, MessageCategory.DEAD)
        await peek.start()
        await asyncio.sleep(Fraction(1, 100))
        await peek.finish()
        try:
            await asyncio.wait_for(task, timeout=10)
            out["returned"] = True
        except asyncio.TimeoutError:
            out["returned"] = False
        await asyncio.sleep(Fraction(1, 2))
        out["places"] = {i: sorted(p[0] for p in v) for i, v in w.places().items()}

    run_async(main)
    S.cover("peeked-during-an-attempt")
    S.check("each-attempt-executed-once", runs == [0, 1] and out["returned"], info=f"attempt counters seen by the actor: {runs}")
    S.check("exhausted-chain-ends-dead", out["places"].get("m1", []) == ["dead"], info=str(out["places"]))


from harness.c05 import h05_rabbit, h05_redis  # noqa: E402
from harness.c02 import h02_rabbit_retry  # noqa: E402

HARNESSES += [
    Harness(
        name="H04-redis-backoff", scenario=h05_redis, workers=4, params={"quick": {"via": "requeue"}, "thorough": {"via": "requeue"}},
        bounds={"retry due time (failure time + back-off), requeue instant, consume instant": "any microsecond in 2000..2050"},
        functions=["connections/redis/message_broker.py:RedisMessageBroker.requeue", "connections/redis/utils.py:wait_timestamp"],
        covers=["delivered", "held-back"],
        stubs=["fake Redis server (fakes/redis.py)"],
    ),
    Harness(
        name="H04-redis-reject-keeps-backoff", scenario=h05_redis, workers=4, params={"quick": {"via": "reject"}, "thorough": {"via": "reject"}},
        bounds={"a retry waiting out its back-off is taken through the delayed category and given back (reject)": "due time, instants any µs in 2000..2050"},
        functions=["connections/redis/message_broker.py:RedisMessageBroker.reject"], covers=["delivered", "held-back"], stubs=["fake Redis server"]),
    Harness(
        name="H04-rabbit-zero-backoff-chain", scenario=h02_rabbit_retry, workers=4,
        bounds={"RabbitMQ": "retries=1, zero back-off, confirm before/after redelivery, retry fails or succeeds"},
        covers=["rabbit-retry"], stubs=["fake AMQP server"]),
    Harness(
        name="H04-rabbit-backoff", scenario=h05_rabbit, params={"quick": {"via": "requeue"}, "thorough": {"via": "requeue"}},
        bounds={"retry due time, publish instant": "any microsecond in 2000..2100 (back-offs up to 100 years)"},
        functions=["connections/rabbitmq/message_broker.py:RabbitMessageBroker.requeue"],
        covers=["published-delayed"],
        outside=["RabbitMQ's own expiry timing (server)"],
    ),
]

from harness.c03 import h03_stop  # noqa: E402

HARNESSES.append(
    Harness(name="H04-stop-during-retry", scenario=h03_stop, workers=16, budget_s=900,
            params={"quick": {"n_msgs": 1, "kinds": (1,)}, "thorough": {"n_msgs": 2, "kinds": (1,)}},
            bounds={"as H03-stop-mem": "a failing job with a retry left: stop signal at every loop step 1..90 (also inside the requeue), any graceful period in [0, 8 ms]: "
                                      "never two copies, a changed counter/slot only through the one requeue"},
            functions=["_runner.py:_Runner._process_with_event", "_processor.py:_Processor.process"],
            covers=["stopped", "requeued"],
            stubs=["signal delivery = the captured handler is called at the start of loop iteration k"]))
from harness.c03 import h03_stop_steps  # noqa: E402

HARNESSES.append(
    Harness(name="H04-stop-steps-during-retry", scenario=h03_stop_steps, workers=16, budget_s=900,
            params={"quick": {"n_msgs": 1, "kinds": (1,), "max_steps": 12}, "thorough": {"n_msgs": 2, "kinds": (1,), "max_steps": 20}},
            bounds={"as H03-stop-steps": "a failing job with a retry left: the stop request arrives while the actor runs, the actor ends 0..12 / 0..20 loop steps later, graceful period 0"},
            functions=["_runner.py:_Runner._process_with_event", "_processor.py:_Processor.process"],
            covers=["stopped"],
            stubs=["signal delivery = the captured handler is called from inside the actor"]))
ASSUMPTIONS = [
    "step/chain harnesses use the in-memory broker; Redis and RabbitMQ back-off delivery is checked at the client boundary on fake servers",
]
HARNESSES.append(Harness(
    name="H04-mem-handback-keeps-backoff", scenario=h04_mem_handback, workers=4,
    bounds={"failure instant": "any µs", "back-off": "any µs in (0, 40 d]", "inspection through the delayed category + reject": "any time up to 40 d later",
            "normal consumer": "any time after that, up to 80 d"},
    functions=["connections/in_memory/message_broker.py:InMemoryMessageBroker.requeue", "connections/in_memory/message_broker.py:InMemoryMessageBroker.reject",
               "connections/in_memory/consumer.py:_InMemoryConsumer.consume"],
    covers=["inspected-and-handed-back", "delivered", "held-back"]))
HARNESSES.append(Harness(
    name="H04-rabbit-crowded-delayed-queue", scenario=h04_rabbit_crowded,
    bounds={"retry": "due in an hour", "further deferred messages": "the declared capacity of the delayed queue (x-max-length, if any; else 2) plus 0..2"},
    functions=["connections/rabbitmq/message_broker.py:RabbitMessageBroker.queue_declare", "connections/rabbitmq/message_broker.py:RabbitMessageBroker.enqueue"],
    covers=["crowded-delayed-queue"], stubs=["fake AMQP server: x-max-length with drop-head through the declared DLX; the filler messages are put there by the stub"]))
from engine.harness import borrowed  # noqa: E402
HARNESSES.append(borrowed("c13", "H13-chain", "H04-chain-with-results"))         # the retry chain goes on whatever the result store does
HARNESSES.append(Harness(
    name="H04-rabbit-peek-during-attempt", scenario=h04_rabbit_peek,
    bounds={"job": "retries 1, zero back-off, every attempt fails after 0.1 s", "peek": "a DEAD-category consumer on the same connection started and finished during the first or the second attempt"},
    functions=["connections/rabbitmq/consumer.py:_RabbitConsumer.finish", "connections/rabbitmq/message_broker.py:RabbitMessageBroker.requeue"],
    covers=["peeked-during-an-attempt"], stubs=["fake AMQP server (basic.recover requeues every unacknowledged delivery of the channel)"]))
