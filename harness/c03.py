"""C03 - stopping or killing a worker at any moment loses no message."""
import asyncio
import signal
from fractions import Fraction

from engine.harness import Harness
from engine.symx import all_of, any_of, implies, neg
from engine.vloop import Deadlock
from engine.vtime import real_timedelta
from harness.common import SEC, World, mem_places, place_names, run_async

KINDS = ["succeed", "fail-retry-left", "fail-exhausted", "recurring-succeed"]
_ITERS = {}


def _run_stop(S, kind, n_msgs, with_result, k, g, d=Fraction(5, 1000), tasks_limit=2, actor_steps=None, slow_ack=False, actor_tail=None):
    from repid import Job, Router, Worker
    from repid.converter import BasicConverter

    out = {"iters": None}
    runs = []
    fired = {}

    async def main(loop):
        w = World(results=True)
        await w.open(record=True)
        r = Router()
        if slow_ack:
            # the message broker answers slowly (several loop steps per ack), the result store at once
            real_ack = w.broker.ack

            async def ack(key):
                for _ in range(8):
                    await asyncio.sleep(0)
                return await real_ack(key)

            w.broker.ack = ack

        @r.actor(converter=BasicConverter, retry_policy=lambda retry_number=1: real_timedelta(seconds=30))
        async def job(i: int):
            runs.append(i)
            if actor_steps is None:
                await asyncio.sleep(d)
            else:
                # the stop request arrives while the actor runs; the actor ends a given number of loop steps later, so the
                # forced cancellation (graceful period 0) lands before, inside and after its report to the broker
                if "t" not in fired and loop.fire_signal():
                    fired["t"] = loop.time()
                    out["fired_iter_actor"] = loop.iters
                for _ in range(actor_steps):
                    await asyncio.sleep(0)
                if actor_tail is not None:
                    await asyncio.sleep(actor_tail)      # an actor that is nowhere near done when the stop request arrives
            if kind in (1, 2):
                raise ValueError("x")
            return i

        before = {}
        for i in range(n_msgs):
            j = Job("job", args={"i": i}, id_=f"m{i}", retries=1 if kind == 1 else 0,
                    deferred_by=real_timedelta(hours=1) if kind == 3 else None,
                    store_result=with_result, result_id=f"r{i}", _connection=w.conn)
            key, _, params = await j.enqueue()
            before[f"m{i}"] = params
        if kind == 3:
            # make the recurring messages due now: move them from delayed to waiting
            q = w.broker.queues["default"]
            for t in list(q.delayed):
                for m in q.delayed.pop(t):
                    q.simple.put_nowait(m)
        w.rec.calls.clear()
        worker = Worker(routers=[r], handle_signals=[signal.SIGTERM], _connection=w.conn,
                        graceful_shutdown_time=g, tasks_limit=tasks_limit)

        def hook(lp):
            if k is not None and lp.iters == base + k and "t" not in fired:
                if lp.fire_signal():
                    fired["t"] = lp.time()
                else:
                    fired["early"] = True      # handler not registered yet / already unregistered
            if lp.iters == base + 600 and "t" not in fired:
                lp.fire_signal()               # end the run (not an observation point)

        base = loop.iters
        loop.iter_hook = hook
        try:
            await asyncio.wait_for(worker.run(), timeout=60)
            out["returned"] = True
        except asyncio.TimeoutError:
            out["returned"] = False
        out["return_t"] = loop.time()
        out["iters"] = loop.iters - base
        loop.iter_hook = None
        out["fired"] = fired.get("t")
        out["fired_iter"] = out.get("fired_iter_actor") or (base + k if k is not None else None)
        await asyncio.sleep(0.05)           # loop idle: let cancelled stragglers unwind
        out["calls"] = list(w.rec.calls)
        out["places"] = w.places()
        out["before"] = before
        out["runs"] = list(runs)
        out["results"] = {f"m{i}": (await w.rb.get_bucket(f"r{i}")) for i in range(n_msgs)} if with_result else {}

    run_async(main)
    return out


def h03_stop(S, n_msgs=1, kinds=(0, 1, 2, 3), max_step=90, tasks_limit=2, results=(False, True)):
    kind = kinds[S.pick("actor_kind", len(kinds))]
    with_result = results[S.pick("store_result", len(results))]
    g = S.real("graceful_period", 0, Fraction(8, 1000))
    S.tag("kind", KINDS[kind])
    K = max_step
    k = S.pick("stop_at_loop_step", K) + 1
    try:
        out = _run_stop(S, kind, n_msgs, with_result, k=k, g=g, tasks_limit=tasks_limit)
    except Deadlock:
        S.check("run-returns", False, info="deadlock")
        return
    _stop_oracle(S, out, n_msgs, g)


def _stop_oracle(S, out, n_msgs, g):
    S.check("run-returns", out["returned"], info="Worker.run() still running 60 s after start")
    if not out["returned"]:
        return
    if out["fired"] is None:
        S.cover("signal-before-handler-registration")
        return
    S.cover("stopped")
    if all(any(c["id"] == f"m{i}" and c["done"] and c["iter_done"] < out["fired_iter"] for c in out["calls"])
           for i in range(n_msgs)):
        S.cover("stop-after-everything-was-disposed")     # shows the step bound reaches past the interesting window
    elapsed = out["return_t"] - out["fired"]
    S.check("returns-within-graceful-period-plus-slack", elapsed <= g + 6 + Fraction(1, 100), info=str(elapsed))
    for i in range(n_msgs):
        mid = f"m{i}"
        pl = out["places"].get(mid, [])
        names = sorted(p[0] for p in pl)
        mine = [c for c in out["calls"] if c["id"] == mid]
        started = [c["op"] for c in mine if c["op"] in ("ack", "nack", "requeue")]
        completed = [c["op"] for c in mine if c["op"] in ("ack", "nack", "requeue") and c["done"]]
        trace = [(c["op"], c["done"]) for c in mine]
        S.check("nothing-left-in-flight", "processing" not in names, info=f"{mid}: {names} {trace}")
        S.check("at-most-one-copy", len(names) <= 1, info=f"{mid}: {names} {trace}")
        if not names:
            S.cover("gone")
            S.check("message-vanishes-only-by-ack", "ack" in started, info=f"{mid} is in no place; broker calls: {trace}")
        elif names == ["waiting"] or names == ["delayed"]:
            msg = pl[0][1]
            if msg.parameters == out["before"][mid]:
                S.cover("returned")
                S.check("not-both-completed-and-returned", not completed, info=f"{mid}: {trace}")
                res = out.get("results", {}).get(mid)
                S.check("returned-message-has-no-published-success", res is None or not res.success,
                        info=f"{mid} is back in its queue to run again, yet a successful result is published for it")
            else:
                S.cover("requeued")
                S.check("changed-parameters-only-by-requeue", "requeue" in started, info=f"{mid}: {trace}")
                rq = [c for c in mine if c["op"] == "requeue"]
                if rq:
                    S.check("requeued-copy-is-the-one-requested", msg.parameters == rq[-1]["args"][2])
        elif names == ["dead"]:
            S.cover("dead")
            S.check("dead-only-by-nack", "nack" in started, info=f"{mid}: {trace}")


def h03_stop_steps(S, n_msgs=1, kinds=(0, 1, 2, 3), max_steps=12):
    """As H03-stop-mem, with the stop request placed relative to the end of the actor in loop steps (graceful period 0)."""
    kind = kinds[S.pick("actor_kind", len(kinds))]
    with_result = S.flag("store_result")
    n = S.pick("actor_ends_this_many_loop_steps_after_the_stop_request", max_steps + 2)
    # last value: the actor would run for another 10 s - with a graceful period of 0 the run still returns within the slack
    tail = 10 if n == max_steps + 1 else None
    slow_ack = with_result and kind == 0 and S.flag("message_broker_acks_slowly")
    S.tag("kind", KINDS[kind])
    try:
        out = _run_stop(S, kind, n_msgs, with_result, k=None, g=0, actor_steps=0 if tail else n, slow_ack=slow_ack, actor_tail=tail)
    except Deadlock:
        S.check("run-returns", False, info="deadlock")
        return
    _stop_oracle(S, out, n_msgs, 0)


def h03_redis_death(S):
    """A Redis consumer's process dies after any number of round trips; a new process connects later."""
    from engine.vtime import PinnedClock
    from fakes import redis as fr
    from repid.data._key import RoutingKey
    import repid.data._parameters as P
    from harness.common import Y2000, Y2050, SEC

    die_after = S.pick("dies_after_round_trips", 8)
    origin = S.pick("origin", 2)          # 0 waiting, 1 due delayed
    t_take = S.int("take_at_us", Y2000, Y2050)
    tau = S.int("execution_timeout_us", SEC, 3 * 86400 * SEC)
    elapsed = S.int("new_process_connects_after_us", 0, 4 * 86400 * SEC)
    clock = PinnedClock(t_take)
    out = {}
    S.tag("dies_after", die_after)

    async def main(loop):
        srv = fr.FakeServer(clock=lambda: clock.time())
        b0 = fr.mk_broker(srv, "producer")
        key = RoutingKey(topic="job", queue="default", id_="m1")
        params = P.Parameters(execution_timeout=S.timedelta_us(tau), timestamp=S.datetime_us(t_take - 10 * SEC),
                              delay=P.DelayProperties(next_execution_time=S.datetime_us(t_take - 5 * SEC) if origin else None))
        await b0.enqueue(key, "p", params)
        b1 = fr.mk_broker(srv, "victim")
        c1 = b1.get_consumer("default", ["job"])
        c1.POLLING_WAIT = 0
        b1.conn.die_after = die_after
        t = asyncio.ensure_future(c1.consume_or_none())
        for _ in range(60):
            await asyncio.sleep(0)
        out["victim_got"] = t.result() if t.done() else "hung"
        out["places_at_death"] = fr.redis_places(srv)
        # (the victim's task is simply abandoned: a dead process runs no cleanup)
        clock.set(t_take + elapsed)
        b2 = fr.mk_broker(srv, "successor")
        await b2.connect()                      # runs maintenance
        c2 = b2.get_consumer("default", ["job"])
        c2.POLLING_WAIT = 0
        out["got"] = await c2.consume_or_none()
        out["places_after"] = fr.redis_places(srv)
        t.cancel()

    run_async(main, clock=clock)
    at_death = place_names(out["places_at_death"], "m1")
    S.check("message-in-exactly-one-place-at-death", at_death in (["waiting"], ["delayed"], ["processing"]), info=str(at_death))
    if at_death == ["processing"]:
        S.cover("died-holding-the-message")
        if out["got"] is not None:
            S.cover("redelivered")
            S.check("not-redelivered-before-the-timeout-elapsed", elapsed > tau,
                    info="redelivered to another consumer before the execution timeout had elapsed")
        else:
            S.cover("still-in-flight")
            S.check("recoverable-once-the-timeout-elapsed", elapsed <= tau + SEC,
                    info="timeout elapsed (by more than a second) and maintenance ran, but the message was not redelivered")
            S.check("kept-in-flight-not-lost", place_names(out["places_after"], "m1") == ["processing"], info=str(out["places_after"]))
    else:
        S.cover("died-before-taking")
        S.check("untaken-message-is-delivered-to-the-successor", out["got"] is not None and out["got"][0].id_ == "m1",
                info=f"at death: {at_death}, successor got {out['got']}")


def h03_rabbit_stop(S, max_step=120, qos_turns=(1, 3)):
    """Worker.run() on the fake AMQP channel (pause/unpause are real round trips), stop signal at every loop step."""
    from repid import Job, Router, Worker
    from repid.converter import BasicConverter

    kind = S.pick("actor_kind", 2)        # succeed / fail with retry left
    n_msgs = 3
    k = S.pick("stop_at_loop_step", max_step) + 1
    turns = qos_turns[S.pick("basic_qos_round_trip_turns", len(qos_turns))]
    g = Fraction(20, 1000)
    S.tag("kind", KINDS[kind])
    out = {}
    runs = []

    async def main(loop):
        w = World(backend="rabbit")
        await w.open(queues=("qa", "qb"), record=False)
        from harness.common import observe_consumers
        out["consumer_log"] = observe_consumers(w.broker)
        orig_qos = type(w.ch).basic_qos

        async def slow_qos(ch, **kw):
            for _ in range(turns - 1):
                await asyncio.sleep(0)
            return await orig_qos(ch, **kw)

        for ch in w.srv.channels:
            ch.basic_qos = slow_qos.__get__(ch)
        r = Router()
        for qn in ("qa", "qb"):
            @r.actor(name="job_" + qn, queue=qn, converter=BasicConverter, retry_policy=lambda retry_number=1: real_timedelta(seconds=30))
            async def job(i: int):
                runs.append(i)
                await asyncio.sleep(Fraction(5, 1000))
                if kind:
                    raise ValueError("x")

        for i in range(n_msgs):
            qn = ("qa", "qb")[i % 2]
            await Job("job_" + qn, queue=qn, args={"i": i}, id_=f"m{i}", retries=1 if kind == 1 else 0, _connection=w.conn).enqueue()
        worker = Worker(routers=[r], handle_signals=[signal.SIGTERM], _connection=w.conn, graceful_shutdown_time=g, tasks_limit=2)
        fired = {}
        base = loop.iters

        def hook(lp):
            if lp.iters == base + k and "t" not in fired:
                if lp.fire_signal():
                    fired["t"] = lp.time()

        # an idle RabbitMQ consumer schedules nothing, so the run is ended by a timer if the chosen step came too early
        loop.call_later(2, lambda: None if "t" in fired else loop.fire_signal())
        prev = loop.iter_hook
        loop.iter_hook = hook
        try:
            await asyncio.wait_for(worker.run(), timeout=60)
            out["returned"] = True
        except asyncio.TimeoutError:
            out["returned"] = False
        out["elapsed"] = loop.time() - fired["t"] if "t" in fired else None
        loop.iter_hook = prev
        await asyncio.sleep(Fraction(1, 2))     # deliveries refused by a stopping consumer are rejected after its 0.1 s pause
        out["places"] = {}
        for qn in ("qa", "qb"):
            for i, v in w.places(qn).items():
                out["places"].setdefault(i, []).extend(v)
        out["open_consumers"] = sum(len(ch.consumers) for ch in w.srv.channels)
        out["log"] = [x for ch in w.srv.channels for x in ch.log]

    try:
        run_async(main)
    except Deadlock:
        S.check("run-returns", False, info="deadlock")
        return
    S.check("run-returns", out["returned"])
    if not out["returned"] or out["elapsed"] is None:
        S.cover("signal-before-handler-registration")
        return
    S.cover("stopped")
    S.check("returns-within-graceful-period-plus-slack", out["elapsed"] <= g + 6 + Fraction(1, 100), info=str(out["elapsed"]))
    for i in range(n_msgs):
        mid = f"m{i}"
        names = place_names(out["places"], mid)
        S.check("at-most-one-copy", len(names) <= 1, info=f"{mid}: {names}")
        if "processing" in names:
            S.tag("stuck_message_left_the_local_buffer", any(e[0] == "deliver" and e[1] == mid for e in out["consumer_log"]))
            S.tag("stuck_message_reached_the_runner", any(e[0] == "handed-to-runner" and e[1] == mid for e in out["consumer_log"]))
        S.check("nothing-stays-unacknowledged", "processing" not in names,
                info=f"{mid} is still unacknowledged on the channel after the worker returned (runs={runs}); consumer log: {out['consumer_log']}; channel log: {out['log'][15:]}")
        if names == []:
            S.cover("gone")
            S.check("vanished-message-was-completed", i in runs and kind == 0, info=f"{mid}: runs={runs}")
        elif names == ["waiting"]:
            S.cover("returned")
            msg = out["places"][mid][0][1]
            S.check("returned-message-keeps-its-retry-counter", msg.parameters.retries.already_tried == 0)
        elif names == ["delayed"]:
            S.cover("requeued")
            S.check("retry-only-after-a-failed-run", i in runs and kind == 1)


def h03_redis_stop(S, max_step=140):
    """Worker.run() on the fake Redis server, stop signal at every loop step."""
    from fakes import redis as fr
    from repid import Connection, Job, Router, Worker
    from repid.converter import BasicConverter

    kind = S.pick("actor_kind", 3)        # succeed / fail with retry left / fail exhausted
    n_msgs = 2
    k = S.pick("stop_at_loop_step", max_step) + 1
    g = Fraction(2, 1000) if S.flag("graceful_period_shorter_than_actor") else Fraction(20, 1000)
    # an actor may need a moment to unwind when it is cancelled (closing a connection, rolling back)
    slow_cancel = S.flag("actor_takes_50ms_to_unwind_when_cancelled")
    slow_redis = S.flag("redis_round_trips_take_150ms")
    S.tag("kind", KINDS[kind])
    out = {}
    runs = []

    async def main(loop):
        srv = fr.FakeServer()
        br = fr.mk_broker(srv)
        conn = Connection(br)
        r = Router()
        if slow_redis:
            srv.latency = lambda client: Fraction(150, 1000)

        @r.actor(converter=BasicConverter, retry_policy=lambda retry_number=1: real_timedelta(seconds=30))
        async def job(i: int):
            runs.append(i)
            try:
                await asyncio.sleep(Fraction(5, 1000))
            except asyncio.CancelledError:
                if slow_cancel:
                    await asyncio.sleep(Fraction(50, 1000))
                raise
            if kind:
                raise ValueError("x")

        for i in range(n_msgs):
            await Job("job", args={"i": i}, id_=f"m{i}", retries=1 if kind == 1 else 0, _connection=conn).enqueue()
        worker = Worker(routers=[r], handle_signals=[signal.SIGTERM], _connection=conn, graceful_shutdown_time=g, tasks_limit=1)
        fired = {}
        base = loop.iters

        def hook(lp):
            if lp.iters == base + k and "t" not in fired:
                if lp.fire_signal():
                    fired["t"] = lp.time()
            if lp.iters == base + 400 and "t" not in fired:
                lp.fire_signal()

        prev = loop.iter_hook
        loop.iter_hook = hook
        try:
            await asyncio.wait_for(worker.run(), timeout=60)
            out["returned"] = True
        except asyncio.TimeoutError:
            out["returned"] = False
        out["elapsed"] = loop.time() - fired["t"] if "t" in fired else None
        loop.iter_hook = prev
        # the process may exit as soon as run() has returned: what is in flight now stays in flight
        out["in_flight_at_return"] = sorted(i for i, v in fr.redis_places(srv).items() if "processing" in place_names({i: v}, i))
        await asyncio.sleep(Fraction(1, 2) if not slow_redis else 5)
        out["places"] = fr.redis_places(srv)
        out["msgs"] = {f"m{i}": fr.redis_message(srv, __import__("repid").data._key.RoutingKey(topic="job", queue="default", id_=f"m{i}")) for i in range(n_msgs)}

    run_async(main)
    S.check("run-returns", out["returned"])
    if not out["returned"] or out["elapsed"] is None:
        S.cover("signal-before-handler-registration")
        return
    S.cover("stopped")
    S.check("returns-within-graceful-period-plus-slack", out["elapsed"] <= g + 6 + Fraction(1, 100), info=str(out["elapsed"]))
    S.check("nothing-in-flight-at-the-moment-run-returns", out["in_flight_at_return"] == [],
            info=f"still marked in flight when Worker.run() returned: {out['in_flight_at_return']} (runs={runs})")
    for i in range(n_msgs):
        mid = f"m{i}"
        names = place_names(out["places"], mid)
        S.check("at-most-one-copy", len(names) <= 1, info=f"{mid}: {names}")
        if "processing" in names:
            S.tag("left_in_flight", "executed" if i in runs else "never-executed")
        S.check("nothing-stays-marked-in-flight", "processing" not in names,
                info=f"{mid} is still in the processing set after the worker returned (runs={runs})")
        if names == []:
            S.cover("gone")
            S.check("vanished-message-was-completed", i in runs and kind == 0 and out["msgs"][mid] is None,
                    info=f"{mid} is in no place; runs={runs}")
        if names in (["waiting"],) and kind == 1:
            import json
            tried = json.loads(out["msgs"][mid]["parameters"])["retries"]["already_tried"]
            S.check("returned-with-counter-unchanged", tried == 0 or i in runs, info=f"{mid}: already_tried={tried}")


def h03_redis_twin(S, max_step=100):
    """The same job id waiting at two priorities (re-enqueued with a higher one): both copies run side by side, one finishes,
    the worker is told to stop while the other still runs - the unfinished copy is handed back to its own queue."""
    from fakes import redis as fr
    from repid import Connection, Job, Router, Worker
    from repid.converter import BasicConverter
    from repid.connections.redis.utils import mnc, qnc
    from repid.data import PrioritiesT
    from repid.data._key import RoutingKey

    k = S.pick("stop_at_loop_step", max_step) + 1
    long_is_high = S.flag("long_running_copy_is_the_high_priority_one")
    short_fails = S.flag("short_copy_fails")
    out = {}
    runs = []
    done = []

    async def main(loop):
        srv = fr.FakeServer()
        br = fr.mk_broker(srv)
        conn = Connection(br)
        r = Router()

        @r.actor(converter=BasicConverter)
        async def job(long: bool):
            runs.append(long)
            await asyncio.sleep(30 if long else Fraction(2, 1000))
            done.append(long)
            if short_fails and not long:
                raise ValueError("x")

        prios = {True: PrioritiesT.HIGH if long_is_high else PrioritiesT.LOW, False: PrioritiesT.LOW if long_is_high else PrioritiesT.HIGH}
        for long in (False, True):
            await Job("job", args={"long": long}, id_="x1", priority=prios[long], _connection=conn).enqueue()
        worker = Worker(routers=[r], handle_signals=[signal.SIGTERM], _connection=conn, graceful_shutdown_time=Fraction(2, 1000), tasks_limit=2)
        fired = {}
        base = loop.iters

        def hook(lp):
            if lp.iters == base + k and "t" not in fired:
                if lp.fire_signal():
                    fired["t"] = lp.time()
            if lp.iters == base + 400 and "t" not in fired:
                lp.fire_signal()

        prev = loop.iter_hook
        loop.iter_hook = hook
        try:
            await asyncio.wait_for(worker.run(), timeout=60)
            out["returned"] = True
        except asyncio.TimeoutError:
            out["returned"] = False
        loop.iter_hook = prev
        out["fired"] = "t" in fired
        await asyncio.sleep(Fraction(1, 2))
        for long in (False, True):
            key = RoutingKey(topic="job", queue="default", id_="x1", priority=prios[long].value)
            lst = srv.kv.get(qnc("default", prios[long].value), [])
            dead = srv.kv.get(qnc("default", prios[long].value, dead=True), [])
            out[long] = {"waiting": list(lst).count(b"job:x1"), "dead": list(dead).count(b"job:x1"), "data": mnc(key) in srv.kv}
        out["processing"] = dict(srv.kv.get("processing", {}))

    run_async(main)
    S.check("run-returns", out["returned"])
    if not out["returned"] or not out["fired"]:
        S.cover("signal-before-handler-registration")
        return
    S.cover("stopped")
    S.check("nothing-stays-marked-in-flight", not out["processing"], info=str(out["processing"]))
    if True in runs and True not in done:
        S.cover("long-copy-interrupted")
        S.check("interrupted-copy-is-back-in-its-own-queue", out[True]["waiting"] == 1 and out[True]["data"],
                info=f"long-running copy after the stop: {out[True]} (short copy {'finished' if False in done else 'not finished'}: {out[False]})")
    if True not in runs:
        S.check("untouched-copy-still-waiting", out[True]["waiting"] == 1 and out[True]["data"], info=str(out[True]))
    if False in done:
        S.cover("short-copy-finished")
        want = {"waiting": 0, "dead": 1 if short_fails else 0, "data": bool(short_fails)}
        back = {"waiting": 1, "dead": 0, "data": True}      # the forced cancellation may land inside its report: handed back instead
        S.check("finished-copy-is-disposed-or-handed-back", out[False] in (want, back), info=f"{out[False]} expected {want} or {back}")


HARNESSES = [
    Harness(
        name="H03-stop-steps", scenario=h03_stop_steps, workers=16, budget_s=900,
        params={"quick": {"n_msgs": 1, "max_steps": 12}, "thorough": {"n_msgs": 2, "max_steps": 20}},
        bounds={"stop request": "arrives while the actor runs; the actor ends 0..12 (quick) / 0..20 (thorough) loop steps later, or would run for another 10 s", "graceful period": "0",
                "actor": "succeeds / fails with a retry left / fails exhausted / recurring success", "result storing": "on/off"},
        functions=["_runner.py:_Runner._process_with_event", "_processor.py:_Processor.process", "_runner.py:_Runner.finish_gracefully"],
        covers=["stopped"],
        stubs=["signal delivery = the captured handler is called from inside the actor"],
    ),
    Harness(
        name="H03-stop-saturated", scenario=h03_stop, workers=16, budget_s=900,
        params={"quick": {"n_msgs": 2, "kinds": (0, 1), "tasks_limit": 1, "results": (False,)},
                "thorough": {"n_msgs": 3, "kinds": (0, 1, 2, 3), "tasks_limit": 1, "max_step": 140}},
        bounds={"as H03-stop-mem": "with tasks_limit = 1 and 2 (quick) / 3 (thorough) messages: the stop request also lands while the consumer "
                                   "loop holds a message and waits, paused, for a free slot"},
        functions=["_runner.py:_Runner._run_consumer", "worker.py:Worker.run", "connections/in_memory/consumer.py:_InMemoryConsumer.pause"],
        covers=["stopped", "gone", "returned"],
        stubs=["signal delivery = the captured handler is called at the start of loop iteration k"],
    ),
    Harness(
        name="H03-rabbit-stop", scenario=h03_rabbit_stop, workers=16, budget_s=900,
        params={"quick": {"max_step": 120}, "thorough": {"max_step": 200, "qos_turns": (1, 2, 3, 5)}},
        bounds={"stop request": "SIGTERM handler at every loop step 1..120 (quick) / 1..200 (thorough)", "queues": "2, with 3 messages, tasks_limit 2",
                "basic.qos round trip": "1 or 3 loop turns (quick); 1, 2, 3, 5 (thorough)", "actor": "5 ms, succeeds / fails with a retry left"},
        functions=["_runner.py:_Runner._run_consumer", "connections/rabbitmq/consumer.py:_RabbitConsumer.pause",
                   "connections/rabbitmq/consumer.py:_RabbitConsumer.unpause", "connections/rabbitmq/consumer.py:_RabbitConsumer.finish"],
        covers=["stopped", "gone", "returned"],
        stubs=["fake AMQP channel; redelivery of unacknowledged messages on channel close is the server's business and not modelled: "
               "a message left unacknowledged counts as lost for the run"],
    ),
    Harness(
        name="H03-stop-mem", scenario=h03_stop, workers=16, budget_s=900,
        params={"quick": {"n_msgs": 1}, "thorough": {"n_msgs": 2}},
        bounds={"stop request": "SIGTERM handler invoked at every event-loop step 1..90 of the run (covers prefetch, payload fetch, actor body, "
                                "ack/nack/requeue, result store; later steps are after the message was disposed)",
                "graceful period": "any real in [0, 8 ms] (actor sleeps 5 ms)", "actor": "succeeds / fails with a retry left / fails exhausted / recurring success",
                "messages": "1 quick / 2 thorough", "result storing": "on/off"},
        functions=["_runner.py:_Runner._process_with_event", "_runner.py:_Runner.stop_wait_and_cancel",
                   "_runner.py:_Runner.finish_gracefully", "worker.py:Worker.run",
                   "connections/in_memory/consumer.py:_InMemoryConsumer.finish"],
        covers=["stopped", "gone", "returned", "requeued", "dead", "stop-after-everything-was-disposed"],
        outside=["RabbitMQ (needs server-side redelivery)", "SIGKILL of a real process", "actors that swallow cancellation", "sync actors"],
        stubs=["signal delivery = the captured handler is called at the start of loop iteration k"],
    ),
]
HARNESSES += [
    Harness(name="H03-redis-death", scenario=h03_redis_death, workers=16, budget_s=900,
            bounds={"process death": "after 0..7 Redis round trips of consume_or_none() (before the fetch, between fetch and take, between take and detail reads, after)",
                    "take instant": "any µs in 2000..2050", "execution timeout": "any µs in [1 s, 3 d]", "successor connects after": "any µs in [0, 4 d]",
                    "origin": "waiting or due-delayed message"},
            functions=["connections/redis/consumer.py:_RedisConsumer.consume_or_none", "connections/redis/message_broker.py:RedisMessageBroker.maintenance",
                       "connections/redis/message_broker.py:RedisMessageBroker.connect"],
            covers=["died-holding-the-message", "died-before-taking", "redelivered", "still-in-flight"],
            stubs=["fake Redis server; process death = the client's next round trip never completes and its task is abandoned"]),
    Harness(name="H03-redis-stop", scenario=h03_redis_stop, workers=16, budget_s=900,
            params={"quick": {"max_step": 140}, "thorough": {"max_step": 220}},
            bounds={"stop request": "SIGTERM handler at every loop step 1..140 (quick) / 1..220 (thorough)", "messages": "2 (one executing, one prefetched; tasks_limit=1)",
                    "graceful period": "2 ms or 20 ms (actor sleeps 5 ms)", "actor": "succeeds / fails with a retry left / fails exhausted"},
            functions=["connections/redis/consumer.py:_RedisConsumer.finish", "connections/redis/consumer.py:_RedisConsumer.backgroud_consume", "worker.py:Worker.run"],
            covers=["stopped"], stubs=["fake Redis server"]),
]
ASSUMPTIONS = ["virtual-time loop; loop step granularity for the crash point; Redis server is a fake"]
HARNESSES.append(Harness(
    name="H03-redis-twin-priorities", scenario=h03_redis_twin, workers=8,
    params={"quick": {"max_step": 100}, "thorough": {"max_step": 160}},
    bounds={"messages": "one job id waiting at HIGH and at LOW priority (same topic), one copy runs 2 ms (succeeds or fails), the other 30 s", "tasks_limit": "2",
            "stop signal": "at every loop step 1..100 (quick) / 160 (thorough)", "graceful period": "2 ms"},
    functions=["connections/redis/message_broker.py:RedisMessageBroker.reject", "connections/redis/message_broker.py:RedisMessageBroker.ack",
               "_runner.py:_Runner._process_with_event"],
    covers=["stopped", "long-copy-interrupted", "short-copy-finished"], stubs=["fake Redis server"]))

from engine.harness import borrowed  # noqa: E402
HARNESSES.append(borrowed("c02", "H02-rabbit-slow-settle", "H03-rabbit-slow-settle"))   # a cancellation while a settle call drains: the delivery is not both settled and handed back
