"""C03 - stopping or killing a worker at any moment loses no message."""
import asyncio
import signal
from fractions import Fraction

from engine.harness import Harness
from engine.symx import all_of, any_of, implies, neg
from engine.vloop import Deadlock
from engine.vtime import real_timedelta
from harness.common import SEC, World, mem_places, place_names, run_async

KINDS = ["succeed", "fail-retry-left", "fail-exhausted", "recurring-succeed"]
_ITERS = {}


def _run_stop(S, kind, n_msgs, with_result, k, g, d=Fraction(5, 1000)):
    from repid import Job, Router, Worker
    from repid.converter import BasicConverter

    out = {"iters": None}
    runs = []

    async def main(loop):
        w = World(results=True)
        await w.open(record=True)
        r = Router()

        @r.actor(converter=BasicConverter, retry_policy=lambda retry_number=1: real_timedelta(seconds=30))
        async def job(i: int):
            runs.append(i)
            await asyncio.sleep(d)
            if kind in (1, 2):
                raise ValueError("x")
            return i

        before = {}
        for i in range(n_msgs):
            j = Job("job", args={"i": i}, id_=f"m{i}", retries=1 if kind == 1 else 0,
                    deferred_by=real_timedelta(hours=1) if kind == 3 else None,
                    store_result=with_result, result_id=f"r{i}", _connection=w.conn)
            key, _, params = await j.enqueue()
            before[f"m{i}"] = params
        if kind == 3:
            # make the recurring messages due now: move them from delayed to waiting
            q = w.broker.queues["default"]
            for t in list(q.delayed):
                for m in q.delayed.pop(t):
                    q.simple.put_nowait(m)
        w.rec.calls.clear()
        worker = Worker(routers=[r], handle_signals=[signal.SIGTERM], _connection=w.conn,
                        graceful_shutdown_time=g, tasks_limit=2)
        fired = {}

        def hook(lp):
            if k is not None and lp.iters == base + k and "t" not in fired:
                if lp.fire_signal():
                    fired["t"] = lp.time()
                else:
                    fired["early"] = True      # handler not registered yet / already unregistered
            if lp.iters == base + 600 and "t" not in fired:
                lp.fire_signal()               # end the run (not an observation point)

        base = loop.iters
        loop.iter_hook = hook
        try:
            await asyncio.wait_for(worker.run(), timeout=60)
            out["returned"] = True
        except asyncio.TimeoutError:
            out["returned"] = False
        out["return_t"] = loop.time()
        out["iters"] = loop.iters - base
        loop.iter_hook = None
        out["fired"] = fired.get("t")
        out["fired_iter"] = base + k if k is not None else None
        await asyncio.sleep(0.05)           # loop idle: let cancelled stragglers unwind
        out["calls"] = list(w.rec.calls)
        out["places"] = w.places()
        out["before"] = before
        out["runs"] = list(runs)

    run_async(main)
    return out


def h03_stop(S, n_msgs=1, kinds=(0, 1, 2, 3), max_step=90):
    kind = kinds[S.pick("actor_kind", len(kinds))]
    with_result = S.flag("store_result")
    g = S.real("graceful_period", 0, Fraction(8, 1000))
    S.tag("kind", KINDS[kind])
    K = max_step
    k = S.pick("stop_at_loop_step", K) + 1
    try:
        out = _run_stop(S, kind, n_msgs, with_result, k=k, g=g)
    except Deadlock:
        S.check("run-returns", False, info="deadlock")
        return
    S.check("run-returns", out["returned"], info="Worker.run() still running 60 s after start")
    if not out["returned"]:
        return
    if out["fired"] is None:
        S.cover("signal-before-handler-registration")
        return
    S.cover("stopped")
    if all(any(c["id"] == f"m{i}" and c["done"] and c["iter_done"] < out["fired_iter"] for c in out["calls"])
           for i in range(n_msgs)):
        S.cover("stop-after-everything-was-disposed")     # shows the step bound reaches past the interesting window
    elapsed = out["return_t"] - out["fired"]
    S.check("returns-within-graceful-period-plus-slack", elapsed <= g + 6 + Fraction(1, 100), info=str(elapsed))
    for i in range(n_msgs):
        mid = f"m{i}"
        pl = out["places"].get(mid, [])
        names = sorted(p[0] for p in pl)
        mine = [c for c in out["calls"] if c["id"] == mid]
        started = [c["op"] for c in mine if c["op"] in ("ack", "nack", "requeue")]
        completed = [c["op"] for c in mine if c["op"] in ("ack", "nack", "requeue") and c["done"]]
        trace = [(c["op"], c["done"]) for c in mine]
        S.check("nothing-left-in-flight", "processing" not in names, info=f"{mid}: {names} {trace}")
        S.check("at-most-one-copy", len(names) <= 1, info=f"{mid}: {names} {trace}")
        if not names:
            S.cover("gone")
            S.check("message-vanishes-only-by-ack", "ack" in started, info=f"{mid} is in no place; broker calls: {trace}")
        elif names == ["waiting"] or names == ["delayed"]:
            msg = pl[0][1]
            if msg.parameters == out["before"][mid]:
                S.cover("returned")
                S.check("not-both-completed-and-returned", not completed, info=f"{mid}: {trace}")
            else:
                S.cover("requeued")
                S.check("changed-parameters-only-by-requeue", "requeue" in started, info=f"{mid}: {trace}")
                rq = [c for c in mine if c["op"] == "requeue"]
                if rq:
                    S.check("requeued-copy-is-the-one-requested", msg.parameters == rq[-1]["args"][2])
        elif names == ["dead"]:
            S.cover("dead")
            S.check("dead-only-by-nack", "nack" in started, info=f"{mid}: {trace}")


HARNESSES = [
    Harness(
        name="H03-stop-mem", scenario=h03_stop, workers=16, budget_s=900,
        params={"quick": {"n_msgs": 1}, "thorough": {"n_msgs": 2}},
        bounds={"stop request": "SIGTERM handler invoked at every event-loop step 1..90 of the run (covers prefetch, payload fetch, actor body, "
                                "ack/nack/requeue, result store; later steps are after the message was disposed)",
                "graceful period": "any real in [0, 8 ms] (actor sleeps 5 ms)", "actor": "succeeds / fails with a retry left / fails exhausted / recurring success",
                "messages": "1 quick / 2 thorough", "result storing": "on/off"},
        functions=["_runner.py:_Runner._process_with_event", "_runner.py:_Runner.stop_wait_and_cancel",
                   "_runner.py:_Runner.finish_gracefully", "worker.py:Worker.run",
                   "connections/in_memory/consumer.py:_InMemoryConsumer.finish"],
        covers=["stopped", "gone", "returned", "requeued", "dead", "stop-after-everything-was-disposed"],
        outside=["RabbitMQ (needs server-side redelivery)", "SIGKILL of a real process", "actors that swallow cancellation", "sync actors"],
        stubs=["signal delivery = the captured handler is called at the start of loop iteration k"],
    ),
]
ASSUMPTIONS = ["in-memory broker on the virtual-time loop; loop step granularity for the crash point"]
