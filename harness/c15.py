"""C15 - within a queue and priority, delivery is first-in first-out."""
import asyncio
from fractions import Fraction

from engine.harness import Harness
from engine.vtime import real_timedelta
from harness.common import T0, SEC, run_async, try_consume
from harness.history import ADAPTERS


def h15(S, backend="mem", backlog=3, steps=3, window=None, foreign=True, retried_first=True, second_consumer=False):
    from repid.data._key import RoutingKey
    import repid.data._parameters as P

    A = ADAPTERS[backend]()
    S.tag("backend", backend)
    if backend == "rabbit":
        # the first deliveries of a starting consumer may be processed before its ConsumeOk reply
        A.consume_ok_turns = [0, 3][S.pick("consume_ok_after_first_deliveries", 2)]
    seq = [0]
    info = {}       # id -> dict(since, fresh, own, place)
    trace = []

    def tick():
        seq[0] += 1
        return seq[0]

    async def main(loop):
        await A.open(loop)
        cons = A.cons["NORMAL"] if hasattr(A, "cons") and "NORMAL" in getattr(A, "cons", {}) else None
        if backend == "rabbit":
            cons = await A._consumer("NORMAL") if False else None
        if window is not None and backend == "redis":
            A.cons["NORMAL"].PREFETCH_AMOUNT = window
        other_cons = None
        if second_consumer:
            other_cons = A.broker.get_consumer("default", ["other"])
            await other_cons.start()
        nid = 0

        async def enqueue(own, past_due=False):
            nonlocal nid
            i = f"m{nid}"
            nid += 1
            key = RoutingKey(topic="job" if own else "other", queue="default", id_=i)
            now = P.datetime.now()
            delay = P.DelayProperties(next_execution_time=now - real_timedelta(seconds=5)) if past_due else P.DelayProperties()
            await A.broker.enqueue(key, "p", P.Parameters(timestamp=now, delay=delay))
            # a message carrying a (past) due time sits in the delayed category until its first promotion:
            # it takes part in the FIFO order only once it has been returned
            info[i] = {"since": tick(), "fresh": True, "own": own, "place": "waiting", "delayed_origin": past_due}
            return i

        for n in range(backlog):
            own = (not foreign) or S.flag(f"own{n}")
            past = own and n == 0 and retried_first and S.flag("first_carries_past_due_time")
            await enqueue(own, past)
            trace.append(("pre", ("own" if own else "foreign") + ("+past-due" if past else "")))
        # on RabbitMQ deliveries travel through callbacks of their own: the client may or may not pause between two calls
        settle = backend == "rabbit" and S.flag("client_pauses_between_calls")
        for step in range(steps):
            if settle:
                await asyncio.sleep(Fraction(1, 100))
            held = [i for i, v in info.items() if v["place"] == "held"]
            menu = [("enqueue", None), ("consume", None)] + [("reject", h) for h in held] + [("ack", h) for h in held[:1]]
            if second_consumer:
                menu += [("consume-other-topic", None), ("enqueue-other-topic", None)]
            op, arg = menu[S.pick(f"op{step}", len(menu))]
            trace.append((op, arg))
            if op == "enqueue":
                await enqueue(True)
            elif op == "enqueue-other-topic":
                await enqueue(False)
            elif op == "consume-other-topic":
                # a second consumer serving the other topic on the same queue: its messages keep their order too
                waiting = [i for i, v in info.items() if v["place"] == "waiting" and not v["own"]]
                got = await try_consume(other_cons)
                if got is None:
                    S.check("waiting-message-is-delivered", not waiting, info=f"{trace}: other-topic consumer got nothing, waiting: {waiting}")
                    continue
                r = got[0].id_
                S.cover("other-topic-consumed")
                S.check("delivered-own-waiting-message", r in waiting, info=f"{trace}: other-topic consumer got {r}, waiting {waiting}")
                if r not in waiting:
                    return
                older = [x for x in waiting if x != r and info[x]["since"] < info[r]["since"]]
                S.check("fifo-not-overtaken", not older, info=f"{trace}: other-topic consumer got {r} while older {older} still waiting")
                info[r]["place"] = "held-other"
            elif op == "consume":
                waiting = [i for i, v in info.items() if v["place"] == "waiting" and v["own"]]
                got = await A.consume("NORMAL")
                if got is None:
                    S.check("waiting-message-is-delivered", not waiting, info=f"{trace}: nothing delivered, waiting own: {waiting}")
                    continue
                r = got[0].id_
                S.cover("consumed")
                S.check("delivered-own-waiting-message", r in waiting, info=f"{trace}: got {r}, waiting own {waiting}")
                if r not in waiting:
                    return
                if info[r]["fresh"]:
                    older = [x for x in waiting if x != r and info[x]["since"] < info[r]["since"]
                             and not (info[x]["fresh"] and info[x]["delayed_origin"])]
                    S.check("fifo-not-overtaken", not older,
                            info=f"{trace}: {r} delivered while older {older} still waiting")
                else:
                    S.cover("returned-message-redelivered")
                info[r]["place"] = "held"
            elif op == "reject":
                key = RoutingKey(topic="job", queue="default", id_=arg)
                await A.broker.reject(key)
                info[arg].update(place="waiting", fresh=False, since=tick())
                if hasattr(A, "settled"):
                    A.settled(arg)
            elif op == "ack":
                key = RoutingKey(topic="job", queue="default", id_=arg)
                await A.broker.ack(key)
                info[arg]["place"] = "gone"
                if hasattr(A, "settled"):
                    A.settled(arg)
        # drain: everything own that is still waiting comes out in order
        if settle:
            await asyncio.sleep(Fraction(1, 100))
        for _ in range(len(info)):
            waiting = [i for i, v in info.items() if v["place"] == "waiting" and v["own"]]
            if not waiting:
                break
            got = await A.consume("NORMAL")
            if got is None:
                S.check("waiting-message-is-delivered", False, info=f"{trace}: drain delivered nothing, waiting own: {waiting}")
                break
            r = got[0].id_
            if r not in waiting:
                S.check("delivered-own-waiting-message", False, info=f"{trace}: drain got {r}, waiting own {waiting}")
                break
            if info[r]["fresh"]:
                older = [x for x in waiting if x != r and info[x]["since"] < info[r]["since"]
                         and not (info[x]["fresh"] and info[x]["delayed_origin"])]
                S.check("fifo-not-overtaken", not older, info=f"{trace}: drain: {r} delivered while older {older} still waiting")
            info[r]["place"] = "held"
        S.cover("drained")

    run_async(main)


def h15_redis_same_id(S):
    """Redis: a job with a fixed id enqueued again while its earlier occurrence still waits keeps its place in the order."""
    from fakes import redis as fr
    from repid.data._key import RoutingKey
    import repid.data._parameters as P

    n_between = S.pick("messages_between_the_two_occurrences", 2) + 1
    n_after = S.pick("messages_after_the_second_occurrence", 2)
    got = []

    async def main(loop):
        br = fr.mk_broker(fr.FakeServer())
        order = ["X"] + [f"a{i}" for i in range(n_between)] + ["X"] + [f"b{i}" for i in range(n_after)]
        for i in order:
            await br.enqueue(RoutingKey(topic="job", queue="default", id_=i), "p", P.Parameters(timestamp=P.datetime.now()))
        cons = br.get_consumer("default", ["job"])
        cons.POLLING_WAIT = 0
        for _ in order:
            m = await cons.consume_or_none()
            got.append(None if m is None else m[0].id_)
        S.note("enqueued", order)

    run_async(main)
    S.cover("same-id-twice")
    want = ["X"] + [f"a{i}" for i in range(n_between)] + ["X"] + [f"b{i}" for i in range(n_after)]
    S.check("fifo-not-overtaken", got == want, info=f"enqueued {want}, delivered {got}")


def h15_redis_poller(S):
    """Redis consumer as the worker uses it (background prefetch + consume()): what it hands out is in enqueue order."""
    from fakes import redis as fr
    from repid.data._key import RoutingKey
    import repid.data._parameters as P

    n = 5
    phase = S.real("first_consume_after_s", 0, Fraction(12, 1000))
    pause_after = S.pick("pause_and_unpause_after_this_many_deliveries", 3)      # 0 = never
    buffer_size = [None, 2][S.pick("bounded_buffer", 2)]
    got = []

    async def main(loop):
        srv = fr.FakeServer()
        srv.latency = lambda client: Fraction(1, 1000)
        br = fr.mk_broker(srv)
        for i in range(n):
            await br.enqueue(RoutingKey(topic="job", queue="default", id_=f"m{i}"), "p", P.Parameters(timestamp=P.datetime.now()))
        cons = br.get_consumer("default", ["job"], buffer_size)
        cons.POLLING_WAIT = Fraction(1, 1000)
        await cons.start()
        await asyncio.sleep(phase)
        for k in range(n):
            if pause_after and k == pause_after:
                await asyncio.sleep(Fraction(1, 50))        # the prefetch has filled the buffer meanwhile
                await cons.pause()
                await asyncio.sleep(Fraction(1, 100))
                await cons.unpause()
            m = await asyncio.wait_for(cons.consume(), timeout=5)
            got.append(m[0].id_)
        await cons.finish()

    run_async(main)
    S.cover("poller-order")
    S.check("fifo-not-overtaken", got == [f"m{i}" for i in range(n)], info=f"delivered {got}")


def h15_redis_past_due(S):
    """Redis: a job whose deferred_until is already over when it is enqueued is deliverable at once - and queues up behind the
    messages that were waiting before it."""
    from engine.vtime import PinnedClock
    from fakes import redis as fr
    from harness.common import SEC, T0
    from repid.data._key import RoutingKey
    import repid.data._parameters as P

    n_older = S.pick("older_messages_waiting", 3) + 1
    over_by = S.int("deferred_until_over_by_us", 1, 3600 * SEC)
    clock = PinnedClock(T0)
    got = []

    async def main(loop):
        br = fr.mk_broker(fr.FakeServer(clock=lambda: clock.time()))
        for i in range(n_older):
            await br.enqueue(RoutingKey(topic="job", queue="default", id_=f"m{i}"), "p", P.Parameters(timestamp=S.datetime_us(T0)))
        late = P.Parameters(timestamp=S.datetime_us(T0 - over_by),
                            delay=P.DelayProperties(delay_until=S.datetime_us(T0 - over_by), defer_by=None))
        await br.enqueue(RoutingKey(topic="job", queue="default", id_="late"), "p", late)
        cons = br.get_consumer("default", ["job"])
        cons.POLLING_WAIT = 0
        for _ in range(n_older + 1):
            m = await cons.consume_or_none()
            got.append(None if m is None else m[0].id_)

    run_async(main, clock=clock)
    S.cover("past-due-enqueued-last")
    want = [f"m{i}" for i in range(n_older)] + ["late"]
    S.check("fifo-not-overtaken", got == want, info=f"enqueued {want}, delivered {got}")


def h15_redis_deferred_returned(S):
    """Redis: a deferred job that became due is taken and handed back (worker stop, Message.reject()); a message enqueued after
    that is not delivered before it."""
    from engine.vtime import PinnedClock
    from fakes import redis as fr
    from harness.common import SEC, T0
    from repid.data._key import RoutingKey
    import repid.data._parameters as P

    frac = S.int("position_in_the_clock_second_us", 0, SEC - 1)
    # (one-off deferral only: handing back the first iteration of a recurring job moves it to its next slot - DESIGN 4.4)
    clock = PinnedClock(T0)
    got = []

    async def main(loop):
        br = fr.mk_broker(fr.FakeServer(clock=lambda: clock.time()))
        key = RoutingKey(topic="job", queue="default", id_="deferred")
        await br.enqueue(key, "p", P.Parameters(timestamp=S.datetime_us(T0), delay=P.DelayProperties(
            delay_until=S.datetime_us(T0 + 2 * SEC))))
        clock.set(T0 + 3 * SEC + frac)
        cons = br.get_consumer("default", ["job"])
        cons.POLLING_WAIT = 0
        first = await cons.consume_or_none()
        got.append(None if first is None else first[0].id_)
        if first is not None:
            await br.reject(first[0])
        await br.enqueue(RoutingKey(topic="job", queue="default", id_="later"), "p", P.Parameters(timestamp=S.datetime_us(T0 + 3 * SEC + frac)))
        for _ in range(2):
            m = await cons.consume_or_none()
            got.append(None if m is None else m[0].id_)

    run_async(main, clock=clock)
    S.cover("deferred-returned")
    S.check("due-deferred-job-is-delivered", got[0] == "deferred", info=str(got))
    S.check("returned-message-not-overtaken", got[1:] == ["deferred", "later"], info=f"after the hand-back the consumer received {got[1:]}")


def _mk(backend, **kw):
    def scen(S, **p):
        return h15(S, backend=backend, **{**kw, **p})
    scen.__name__ = "h15_" + backend
    return scen


HARNESSES = [
    Harness(name="H15-mem", scenario=_mk("mem"), workers=16, budget_s=900,
            params={"quick": {"backlog": 2, "steps": 4}, "thorough": {"backlog": 3, "steps": 5}},
            bounds={"initial backlog": "2 quick / 3 thorough messages, each own-topic or foreign-topic (symbolic flags); the first may carry a past due time (a retried/rescheduled message)",
                    "then": "4 / 5 operations from {enqueue own, consume, reject a held message, ack}, then drain"},
            functions=["connections/in_memory/consumer.py:_InMemoryConsumer.consume"], covers=["consumed", "drained", "returned-message-redelivered"]),
    Harness(name="H15-mem-two-topics", scenario=_mk("mem", second_consumer=True), workers=16, budget_s=900,
            params={"quick": {"backlog": 3, "steps": 3}, "thorough": {"backlog": 4, "steps": 4}},
            bounds={"two consumers": "one per topic on the same in-memory queue", "backlog": "3 / 4 messages of either topic", "then": "3 / 4 operations incl. consumes by either consumer"},
            functions=["connections/in_memory/consumer.py:_InMemoryConsumer.consume"], covers=["consumed", "other-topic-consumed"]),
    Harness(name="H15-redis-returned", scenario=_mk("redis", foreign=False), workers=8,
            params={"quick": {"backlog": 1, "steps": 4}, "thorough": {"backlog": 2, "steps": 5}},
            bounds={"backlog": "1 / 2 messages, the first may carry a past due time (a retried message: it lives in the delayed set)", "then": "4 / 5 operations incl. reject and later enqueues"},
            functions=["connections/redis/message_broker.py:RedisMessageBroker.reject", "connections/redis/consumer.py:_RedisConsumer.consume_or_none"],
            covers=["consumed", "returned-message-redelivered"], stubs=["fake Redis server"]),
    Harness(name="H15-redis-small-window", scenario=_mk("redis"), workers=16, budget_s=900,
            params={"quick": {"backlog": 4, "steps": 2, "window": 2}, "thorough": {"backlog": 5, "steps": 3, "window": 3}},
            bounds={"fetch window": "PREFETCH_AMOUNT set to 2 (quick) / 3 (thorough) on the consumer instance so that the backlog is longer than the window",
                    "initial backlog": "4 / 5 messages with symbolic own/foreign flags", "then": "2 / 3 operations, then drain"},
            functions=["connections/redis/consumer.py:_RedisConsumer.consume_or_none"], covers=["consumed", "drained"],
            stubs=["fake Redis server; random priority order pinned"]),
    Harness(name="H15-redis-real-window", scenario=_mk("redis", foreign=False), workers=16, budget_s=900,
            params={"quick": {"backlog": 12, "steps": 2}, "thorough": {"backlog": 13, "steps": 3}},
            bounds={"fetch window": "the real PREFETCH_AMOUNT (10)", "initial backlog": "12 / 13 own messages", "then": "2 / 3 operations, then drain"},
            covers=["consumed", "drained"]),
    Harness(name="H15-redis-poller", scenario=h15_redis_poller, workers=8,
            bounds={"backlog": "5 messages, 1 ms round trips", "first consume()": "any real time in [0, 12 ms] after start()", "buffer": "unbounded or 2",
                    "pause/unpause": "never, or after 1 or 2 deliveries"},
            functions=["connections/redis/consumer.py:_RedisConsumer.consume", "connections/redis/consumer.py:_RedisConsumer.backgroud_consume",
                       "connections/redis/consumer.py:_RedisConsumer.pause"], covers=["poller-order"], stubs=["fake Redis server with 1 ms latency"]),
    Harness(name="H15-redis-past-due", scenario=h15_redis_past_due,
            bounds={"older messages waiting": "1..3", "late job": "deferred_until over by any µs up to an hour when it is enqueued"},
            functions=["connections/redis/utils.py:wait_timestamp", "connections/redis/message_broker.py:RedisMessageBroker.enqueue"],
            covers=["past-due-enqueued-last"], stubs=["fake Redis server"]),
    Harness(name="H15-redis-deferred-returned", scenario=h15_redis_deferred_returned,
            bounds={"job": "deferred_until 2 s ahead, taken one second after it became due at any position in the clock second, handed back",
                    "then": "another message is enqueued; two consume calls"},
            functions=["connections/redis/message_broker.py:RedisMessageBroker.reject", "connections/redis/utils.py:wait_timestamp"],
            covers=["deferred-returned"], stubs=["fake Redis server"]),
    Harness(name="H15-redis-same-id", scenario=h15_redis_same_id,
            bounds={"sequence": "X, 1-2 others, X again, 0-1 others; consumed without acknowledging in between"},
            functions=["connections/redis/consumer.py:_RedisConsumer.__get_message_name"], covers=["same-id-twice"], stubs=["fake Redis server"]),
    Harness(name="H15-rabbit", scenario=_mk("rabbit"), workers=16, budget_s=900,
            params={"quick": {"backlog": 2, "steps": 4, "foreign": False, "retried_first": False}, "thorough": {"backlog": 3, "steps": 5, "foreign": False, "retried_first": False}},
            bounds={"initial backlog": "2 / 3 own messages", "then": "4 / 5 operations, then drain"},
            covers=["consumed", "drained"],
            stubs=["fake AMQP server: FIFO queues, requeue to original position; server-side ordering is part of the stub, so this only checks that the client keeps the order it is given"],
            outside=["RabbitMQ server ordering guarantees", "foreign topics on RabbitMQ (reject+requeue loop timing)"]),
]
ASSUMPTIONS = ["equal priority (MEDIUM); cross-priority order is randomised by design and outside the property"]

from engine.harness import borrowed  # noqa: E402
HARNESSES.append(borrowed("c05", "H05-mem-steady-load", "H15-mem-due-under-load"))   # a message that became due is not overtaken for ever by later arrivals
HARNESSES.append(borrowed("c05", "H05-mem", "H15-mem-due-behind-far"))           # a due message is not stuck behind one scheduled earlier for a later time
