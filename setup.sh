#!/bin/sh
# Builds the overlay venv used by every check.  Offline: wheels come from /opt/veriftools/wheels.
set -e
cd "$(dirname "$0")"
if [ -x .venv/bin/python ] && .venv/bin/python -c "import z3, cvc5, repid, jsonschema" 2>/dev/null; then
  exit 0
fi
rm -rf .venv
/venv/bin/python -m venv .venv
SP=$(.venv/bin/python -c "import sysconfig; print(sysconfig.get_paths()['purelib'])")
printf '%s\n' "import site; site.addsitedir('/venv/lib/python3.12/site-packages')" > "$SP/zz_repo_env.pth"
PIP_NO_INDEX=1 .venv/bin/pip install -q --no-index --find-links /opt/veriftools/wheels z3-solver cvc5 jsonschema >/dev/null
.venv/bin/python -c "import z3, cvc5, repid, jsonschema; print('verif venv ready: z3', z3.get_version_string(), 'repid from', repid.__file__)"
